/-
C20 — operator-defined extra log fields: `log_append` (modules/caddyhttp/logging/logadd.go).

`LogAppend.ServeHTTP` runs the rest of the chain, then computes ONE value from the configured `value`
string and hands it to the access log as an extra field (`zap.Any(key, value)`; server.go logRequest
appends `extra.fields` to the entry):

    if HasPrefix(v,"{") && HasSuffix(v,"}") && Count(v,"{") == 1   → repl.Get(strings.Trim(v, "{}"))
    else if val, ok := vars[v]; ok                                  → val
    else                                                            → v  (a constant)

The only way header material can enter is the first branch, through the HTTP replacer's
`http.request.header.<field>` key: `strings.Join(req.Header[textproto.CanonicalMIMEHeaderKey(field)], ",")`
(modules/caddyhttp/replacer.go).  The rule the property needs (decision of round h, with the property text):
a credential header reaches an extra field ONLY when the operator wrote a placeholder that NAMES that very
header — that is credential logging explicitly asked for, field by field; every other configured value
yields a field that does not depend on the credential headers at all (non-interference).

Modelled replacer keys: `http.request.header.*`, `http.response.header.*`, `http.request.method`, `http.request.host`,
`http.vars.*`; every other key the harness sends is one no provider knows (→ nil).  The remaining
keys of the HTTP provider (cookie.*, uri.*, tls.*, …) are judged on the implementation by the taint oracle
of op `la` (class la-credential-in-extra-field).
-/
import CaddyModel.C20.Model

namespace CaddyModel.C20

/-- what `zap.Any` receives -/
inductive LaVal where
  | s (v : Bytes)     -- a string
  | nil               -- no provider knows the key (`repl.Get` → nil, false)
  | other             -- a non-string variable (bool, …)
deriving DecidableEq, Repr

/-- a `vars` entry: a string or something else -/
abbrev Vars := List (Bytes × Option Bytes)

def lbrace : UInt8 := 123
def rbrace : UInt8 := 125
def isBrace (b : UInt8) : Bool := b == lbrace || b == rbrace

/-- the placeholder test of logadd.go -/
def looksPlaceholder (v : Bytes) : Bool :=
  v.head? == some lbrace && v.getLast? == some rbrace && v.count lbrace == 1

/-- `strings.Trim(v, "{}")`: every leading and trailing brace goes -/
def trimBraces (v : Bytes) : Bytes := ((v.dropWhile isBrace).reverse.dropWhile isBrace).reverse

/-- net/textproto `validHeaderFieldByte`: RFC 7230 token characters -/
def tokenByte (b : UInt8) : Bool :=
  (48 ≤ b && b ≤ 57) || (65 ≤ b && b ≤ 90) || (97 ≤ b && b ≤ 122) ||
  [33, 35, 36, 37, 38, 39, 42, 43, 45, 46, 94, 95, 96, 124, 126].contains b

def upperByte (b : UInt8) : UInt8 := if 97 ≤ b ∧ b ≤ 122 then b - 32 else b

/-- the canonicalising loop: upper case at the start and after `-`, lower case elsewhere -/
def canonAux : Bool → Bytes → Bytes
  | _, [] => []
  | up, c :: r => (if up then upperByte c else lowerByte c) :: canonAux (c == 45) r

/-- `textproto.CanonicalMIMEHeaderKey`: a key with any non-token byte (space included) is returned unchanged -/
def canonicalKey (k : Bytes) : Bytes := if k.all tokenByte then canonAux true k else k

def hdrLookup (h : Hdr) (k : Bytes) : List Bytes :=
  match h.find? (fun kv => kv.1 == k) with
  | some kv => kv.2
  | none => []

/-- `strings.Join(vals, ",")` -/
def joinComma : List Bytes → Bytes
  | [] => []
  | [a] => a
  | a :: r => a ++ 44 :: joinComma r

def reqHeaderPrefix : Bytes := str "http.request.header."
def varsPrefix : Bytes := str "http.vars."
def respHeaderPrefix : Bytes := str "http.response.header."

def varLookup (vars : Vars) (k : Bytes) : Option (Option Bytes) :=
  (vars.find? (fun kv => kv.1 == k)).map (·.2)

def varVal : Option (Option Bytes) → LaVal
  | some (some s) => .s s
  | some none => .other
  | none => .nil

/-- the part of `repl.Get` the model covers (see the file comment) -/
def replGet (method host : Bytes) (vars : Vars) (h rh : Hdr) (key : Bytes) : LaVal :=
  if reqHeaderPrefix.isPrefixOf key then
    .s (joinComma (hdrLookup h (canonicalKey (key.drop reqHeaderPrefix.length))))
  else if key == str "http.request.method" then .s method
  else if key == str "http.request.host" then .s host
  else if varsPrefix.isPrefixOf key then
    -- `http.vars.x`: GetVar; a missing variable is a nil value
    varVal (varLookup vars (key.drop varsPrefix.length))
  else if respHeaderPrefix.isPrefixOf key then
    -- log_append runs AFTER the rest of the chain: the response header map is what the handlers left there
    .s (joinComma (hdrLookup rh (canonicalKey (key.drop respHeaderPrefix.length))))
  else .nil

/-- the value `LogAppend.ServeHTTP` adds to the access log entry -/
def logAppendValue (method host : Bytes) (vars : Vars) (h rh : Hdr) (v : Bytes) : LaVal :=
  if looksPlaceholder v then replGet method host vars h rh (trimBraces v)
  else match varLookup vars v with
    | some x => varVal (some x)
    | none => .s v

/-- the configured value is a placeholder that NAMES a credential header (any casing the canonicalisation
    folds; `Trailer:`-prefixed keys as the wrapper treats them) -/
def namesCredentialKey (key : Bytes) : Bool :=
  (reqHeaderPrefix.isPrefixOf key && isCred (canonicalKey (key.drop reqHeaderPrefix.length))) ||
  (respHeaderPrefix.isPrefixOf key && isCred (canonicalKey (key.drop respHeaderPrefix.length)))

def namesCredential (v : Bytes) : Bool := looksPlaceholder v && namesCredentialKey (trimBraces v)

/-- the header map without its credential headers -/
def nonCreds (h : Hdr) : Hdr := h.filter fun kv => !isCred kv.1

end CaddyModel.C20
