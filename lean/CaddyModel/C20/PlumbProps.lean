/-
C20 — "unless credential logging is explicitly enabled": theorems about the plumbing of the flag.
-/
import CaddyModel.C20.Plumb

namespace CaddyModel.C20

theorem mem_insertBlock (b x : OptBlock) : ∀ l, x ∈ insertBlock b l ↔ x = b ∨ x ∈ l
  | [] => by simp [insertBlock]
  | c :: r => by
    unfold insertBlock
    split
    · simp
    · simp [mem_insertBlock b x r]
      constructor
      · rintro (h | h | h)
        · exact Or.inr (Or.inl h)
        · exact Or.inl h
        · exact Or.inr (Or.inr h)
      · rintro (h | h | h)
        · exact Or.inr (Or.inl h)
        · exact Or.inl h
        · exact Or.inr (Or.inr h)

/-- sorting the option blocks loses and invents none -/
theorem mem_sortBlocks (x : OptBlock) : ∀ l, x ∈ sortBlocks l ↔ x ∈ l
  | [] => by simp [sortBlocks]
  | b :: r => by simp [sortBlocks, mem_insertBlock, mem_sortBlocks x r]

/-- **explicitly enabled, whatever `sort.Slice` does with ties.** `sort.Slice` is not a stable sort beyond 12
    elements, so which of several equally long listener addresses comes first is unspecified; the statement
    does not depend on it: for ANY order that holds exactly the configured blocks, a server logs credentials
    only if a block that applies to it contains `log_credentials`. -/
theorem credentials_only_when_enabled_any_order (blocks order : List OptBlock) (s : Srv)
    (hperm : ∀ x, x ∈ order ↔ x ∈ blocks) (h : effectiveCreds (applyOptsOrder order s) = true) :
    ∃ b ∈ blocks, blockApplies s b = true ∧ b.logCreds = true := by
  unfold applyOptsOrder at h
  cases hf : firstBlock order s with
  | none => simp [hf, effectiveCreds] at h
  | some b =>
    refine ⟨b, (hperm b).mp (List.mem_of_find?_eq_some hf), List.find?_some hf, ?_⟩
    cases hb : b.logCreds with
    | true => rfl
    | false => simp [hf, hb, effectiveCreds] at h

/-- **explicitly enabled.** A server logs credentials only if the `servers` block chosen for it — the first one,
    longest listener address first, that has an empty listener address or one of the server's listen addresses —
    contains `log_credentials`. -/
theorem credentials_only_when_explicitly_enabled (blocks : List OptBlock) (s : Srv)
    (h : effectiveCreds (applyOpts blocks s) = true) :
    ∃ b, firstBlock (sortBlocks blocks) s = some b ∧ b ∈ blocks ∧ blockApplies s b = true ∧ b.logCreds = true := by
  unfold applyOpts applyOptsOrder at h
  cases hf : firstBlock (sortBlocks blocks) s with
  | none => simp [hf, effectiveCreds] at h
  | some b =>
    refine ⟨b, rfl, (mem_sortBlocks b blocks).mp (List.mem_of_find?_eq_some hf), List.find?_some hf, ?_⟩
    cases hb : b.logCreds with
    | true => rfl
    | false => simp [hf, hb, effectiveCreds] at h

/-- the default is off: without any `log_credentials` no server logs credentials, whatever else is configured -/
theorem credentials_off_by_default (blocks : List OptBlock) (s : Srv) (h : ∀ b ∈ blocks, b.logCreds = false) :
    effectiveCreds (applyOpts blocks s) = false := by
  cases hc : effectiveCreds (applyOpts blocks s) with
  | false => rfl
  | true =>
    rcases credentials_only_when_explicitly_enabled blocks s hc with ⟨b, _, hm, _, hb⟩
    rw [h b hm] at hb; cases hb

/-- enabling it for one listener does not enable it for a server that does not listen there -/
theorem credentials_enabled_per_listener (blocks : List OptBlock) (s : Srv)
    (h : ∀ b ∈ blocks, b.logCreds = true → blockApplies s b = false) :
    effectiveCreds (applyOpts blocks s) = false := by
  cases hc : effectiveCreds (applyOpts blocks s) with
  | false => rfl
  | true =>
    rcases credentials_only_when_explicitly_enabled blocks s hc with ⟨b, _, hm, ha, hb⟩
    rw [h b hm hb] at ha; cases ha

/-- and when the first applicable block asks for it, the flag is on even for a server without `log` -/
theorem credentials_enabled_when_asked (blocks : List OptBlock) (s : Srv) (b : OptBlock)
    (hf : firstBlock (sortBlocks blocks) s = some b) (hb : b.logCreds = true) : applyOpts blocks s = (true, true) := by
  simp [applyOpts, applyOptsOrder, hf, hb]

/-- **the redirect server.** The server automatic HTTPS adds for HTTP->HTTPS redirects logs credentials only if
    a configured server that qualifies for automatic HTTPS has them enabled — it never invents the flag. -/
theorem redirect_server_credentials_come_from_a_tls_server : ∀ (srvs : List TlsSrv),
    redirectCreds srvs = true → ∃ s ∈ srvs, s.qualifies = true ∧ s.logs = some true
  | [], h => by simp [redirectCreds, redirectLogs] at h
  | s :: r, h => by
    unfold redirectCreds redirectLogs at h
    cases hr : redirectLogs r with
    | some f =>
      simp [hr] at h
      have : redirectCreds r = true := by simp [redirectCreds, hr, h]
      rcases redirect_server_credentials_come_from_a_tls_server r this with ⟨t, ht, hq⟩
      exact ⟨t, by simp [ht], hq⟩
    | none =>
      simp only [hr] at h
      cases hq : s.qualifies with
      | false => simp [hq] at h
      | true =>
        simp only [hq, if_true] at h
        cases hl : s.logs with
        | none => simp [hl] at h
        | some f =>
          simp [hl] at h
          exact ⟨s, by simp, hq, by rw [hl, h]⟩

/-- …and it is the LAST qualifying server with a `logs` object that decides: credentials enabled on an earlier
    server do not reach the redirect server when a later one has them off -/
theorem redirect_server_takes_last (srvs : List TlsSrv) (s : TlsSrv) (f : Bool)
    (hq : s.qualifies = true) (hl : s.logs = some f) : redirectCreds (srvs ++ [s]) = f := by
  have key : ∀ l : List TlsSrv, redirectLogs (l ++ [s]) = some f := by
    intro l
    induction l with
    | nil => simp [redirectLogs, hq, hl]
    | cons t r ih => simp [redirectLogs, ih]
  simp [redirectCreds, key srvs]

/-! non-vacuity -/
-- the harness' configuration: tlsA (credentials on), tlsB (off): the redirect server has them off
example : redirectCreds [⟨true, some true⟩, ⟨true, some false⟩] = false := by decide
example : redirectCreds [⟨true, some false⟩, ⟨false, some true⟩, ⟨true, none⟩] = false ∧
    redirectCreds [⟨true, some true⟩, ⟨true, none⟩] = true := by decide
def exBlocks : List OptBlock := [⟨[], false⟩, ⟨str ":8001", true⟩, ⟨str "127.0.0.1:8002", false⟩]
example : sortBlocks exBlocks = [⟨str "127.0.0.1:8002", false⟩, ⟨str ":8001", true⟩, ⟨[], false⟩] := by decide
-- the specific block wins over the catch-all although it is written after it
example : applyOpts exBlocks ⟨[str ":8001"], false⟩ = (true, true) := by decide
example : applyOpts exBlocks ⟨[str "127.0.0.1:8002", str "127.0.0.2:8002"], true⟩ = (true, false) := by decide
example : applyOpts exBlocks ⟨[str ":8003"], false⟩ = (false, false) := by decide
example : effectiveCreds (applyOpts [] ⟨[str ":80"], true⟩) = false := by decide

end CaddyModel.C20
