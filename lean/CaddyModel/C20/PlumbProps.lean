/-
C20 — "unless credential logging is explicitly enabled": theorems about the plumbing of the flag.
-/
import CaddyModel.C20.Plumb

namespace CaddyModel.C20

theorem mem_insertBlock (b x : OptBlock) : ∀ l, x ∈ insertBlock b l ↔ x = b ∨ x ∈ l
  | [] => by simp [insertBlock]
  | c :: r => by
    unfold insertBlock
    split
    · simp
    · simp [mem_insertBlock b x r]
      constructor
      · rintro (h | h | h)
        · exact Or.inr (Or.inl h)
        · exact Or.inl h
        · exact Or.inr (Or.inr h)
      · rintro (h | h | h)
        · exact Or.inr (Or.inl h)
        · exact Or.inl h
        · exact Or.inr (Or.inr h)

/-- sorting the option blocks loses and invents none -/
theorem mem_sortBlocks (x : OptBlock) : ∀ l, x ∈ sortBlocks l ↔ x ∈ l
  | [] => by simp [sortBlocks]
  | b :: r => by simp [sortBlocks, mem_insertBlock, mem_sortBlocks x r]

/-- **explicitly enabled, whatever `sort.Slice` does with ties.** `sort.Slice` is not a stable sort beyond 12
    elements, so which of several equally long listener addresses comes first is unspecified; the statement
    does not depend on it: for ANY order that holds exactly the configured blocks, a server logs credentials
    only if a block that applies to it contains `log_credentials`. -/
theorem credentials_only_when_enabled_any_order (blocks order : List OptBlock) (s : Srv)
    (hperm : ∀ x, x ∈ order ↔ x ∈ blocks) (h : effectiveCreds (applyOptsOrder order s) = true) :
    ∃ b ∈ blocks, blockApplies s b = true ∧ b.logCreds = true := by
  unfold applyOptsOrder at h
  cases hf : firstBlock order s with
  | none => simp [hf, effectiveCreds] at h
  | some b =>
    refine ⟨b, (hperm b).mp (List.mem_of_find?_eq_some hf), List.find?_some hf, ?_⟩
    cases hb : b.logCreds with
    | true => rfl
    | false => simp [hf, hb, effectiveCreds] at h

/-- **explicitly enabled.** A server logs credentials only if the `servers` block chosen for it — the first one,
    longest listener address first, that has an empty listener address or one of the server's listen addresses —
    contains `log_credentials`. -/
theorem credentials_only_when_explicitly_enabled (blocks : List OptBlock) (s : Srv)
    (h : effectiveCreds (applyOpts blocks s) = true) :
    ∃ b, firstBlock (sortBlocks blocks) s = some b ∧ b ∈ blocks ∧ blockApplies s b = true ∧ b.logCreds = true := by
  unfold applyOpts applyOptsOrder at h
  cases hf : firstBlock (sortBlocks blocks) s with
  | none => simp [hf, effectiveCreds] at h
  | some b =>
    refine ⟨b, rfl, (mem_sortBlocks b blocks).mp (List.mem_of_find?_eq_some hf), List.find?_some hf, ?_⟩
    cases hb : b.logCreds with
    | true => rfl
    | false => simp [hf, hb, effectiveCreds] at h

/-- the default is off: without any `log_credentials` no server logs credentials, whatever else is configured -/
theorem credentials_off_by_default (blocks : List OptBlock) (s : Srv) (h : ∀ b ∈ blocks, b.logCreds = false) :
    effectiveCreds (applyOpts blocks s) = false := by
  cases hc : effectiveCreds (applyOpts blocks s) with
  | false => rfl
  | true =>
    rcases credentials_only_when_explicitly_enabled blocks s hc with ⟨b, _, hm, _, hb⟩
    rw [h b hm] at hb; cases hb

/-- enabling it for one listener does not enable it for a server that does not listen there -/
theorem credentials_enabled_per_listener (blocks : List OptBlock) (s : Srv)
    (h : ∀ b ∈ blocks, b.logCreds = true → blockApplies s b = false) :
    effectiveCreds (applyOpts blocks s) = false := by
  cases hc : effectiveCreds (applyOpts blocks s) with
  | false => rfl
  | true =>
    rcases credentials_only_when_explicitly_enabled blocks s hc with ⟨b, _, hm, ha, hb⟩
    rw [h b hm hb] at ha; cases ha

/-- and when the first applicable block asks for it, the flag is on even for a server without `log` -/
theorem credentials_enabled_when_asked (blocks : List OptBlock) (s : Srv) (b : OptBlock)
    (hf : firstBlock (sortBlocks blocks) s = some b) (hb : b.logCreds = true) : applyOpts blocks s = (true, true) := by
  simp [applyOpts, applyOptsOrder, hf, hb]

/-! non-vacuity -/
def exBlocks : List OptBlock := [⟨[], false⟩, ⟨str ":8001", true⟩, ⟨str "127.0.0.1:8002", false⟩]
example : sortBlocks exBlocks = [⟨str "127.0.0.1:8002", false⟩, ⟨str ":8001", true⟩, ⟨[], false⟩] := by decide
-- the specific block wins over the catch-all although it is written after it
example : applyOpts exBlocks ⟨[str ":8001"], false⟩ = (true, true) := by decide
example : applyOpts exBlocks ⟨[str "127.0.0.1:8002", str "127.0.0.2:8002"], true⟩ = (true, false) := by decide
example : applyOpts exBlocks ⟨[str ":8003"], false⟩ = (false, false) := by decide
example : effectiveCreds (applyOpts [] ⟨[str ":80"], true⟩) = false := by decide

end CaddyModel.C20
