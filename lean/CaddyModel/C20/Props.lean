/-
C20 — property theorems (kept apart from the helper lemmas).

Statement: unless credential logging is explicitly enabled, the values of Cookie, Set-Cookie,
Authorization and Proxy-Authorization headers of any request or response never appear in access
logs, error logs or reverse-proxy debug logs, whatever the header-name casing, number of values
or handler path taken.  A configured log field filter (delete, replace, hash, IP mask, query,
cookie, regexp) never emits the original value of the part it is configured to hide.

Clauses the unchanged tree violates are stated at full strength in `Witness.lean`, refuted there
by a concrete witness (`…_full_fails`), and proved here as `…_partial` under an explicit
decidable exclusion.
-/
import CaddyModel.C20.Lemmas
import CaddyModel.C20.Witness
import CaddyModel.C20.FEncProps
import CaddyModel.C20.PlumbProps
import CaddyModel.C20.RemoteAddr
import CaddyModel.C20.LogAppendProps
import CaddyModel.Gen.Redacted
import CaddyModel.Gen.LogSites

namespace CaddyModel.C20

/-! ## 1. redaction -/

/-- the key test before the trailer fix already accepted every ASCII casing of the four names -/
theorem credOld_any_casing (k name : Bytes) (hn : name ∈ credNames) (hk : k.map lowerByte = name) :
    isCredOld k = true := by
  have hascii : ∀ b ∈ k, b < 128 := by
    intro b hb
    apply lowerByte_lt
    have : lowerByte b ∈ name := by rw [← hk]; exact List.mem_map.mpr ⟨b, hb, rfl⟩
    exact credNames_ascii name hn _ this
  unfold isCredOld foldName
  rw [foldAux_ascii k hascii, hk]
  simpa using hn

/-- **any casing.** A key that is one of the four names up to ASCII case is a credential key. -/
theorem cred_any_casing (k name : Bytes) (hn : name ∈ credNames) (hk : k.map lowerByte = name) :
    isCred k = true := by
  have hcolon : (58 : UInt8) ∉ k := by
    intro h58
    have : lowerByte 58 ∈ name := by rw [← hk]; exact List.mem_map.mpr ⟨58, h58, rfl⟩
    exact credNames_no_colon name hn (by simpa [lowerByte] using this)
  unfold isCred
  rw [stripTrailer_no_colon k hcolon]
  exact credOld_any_casing k name hn hk

/-- **trailer-prefixed keys.** `Trailer:<name>` — how reverse_proxy keeps a trailer field the upstream did
    not announce — is a credential key too, for every ASCII casing of the name. -/
theorem cred_trailer_any_casing (k name : Bytes) (hn : name ∈ credNames) (hk : k.map lowerByte = name) :
    isCred (trailerPrefix ++ k) = true := by
  unfold isCred
  rw [stripTrailer_prefixed]
  exact credOld_any_casing k name hn hk

/-- **redacted.** Without `log_credentials`, the logged header object is the header map with the
    same keys in the same order where every credential key — in any casing, with any number of
    values (none, one, many) — carries exactly `["REDACTED"]`, and every other header is unchanged. -/
theorem redacted (h : Hdr) : loggableHeader h false = redactSpec h := loggableHeader_eq_spec h

/-- …in particular for each single header: -/
theorem redacted_any_casing_any_count (h : Hdr) (k name : Bytes) (vals : List Bytes)
    (hn : name ∈ credNames) (hk : k.map lowerByte = name) (hm : (k, vals) ∈ h) :
    (k, [str "REDACTED"]) ∈ loggableHeader h false := by
  rw [redacted]
  unfold redactSpec
  refine List.mem_map.mpr ⟨(k, vals), hm, ?_⟩
  simp [cred_any_casing k name hn hk, redactedVal]

/-- …and for each trailer field kept under `Trailer:<name>`: -/
theorem redacted_trailer_any_casing_any_count (h : Hdr) (k name : Bytes) (vals : List Bytes)
    (hn : name ∈ credNames) (hk : k.map lowerByte = name) (hm : (trailerPrefix ++ k, vals) ∈ h) :
    (trailerPrefix ++ k, [str "REDACTED"]) ∈ loggableHeader h false := by
  rw [redacted]
  unfold redactSpec
  refine List.mem_map.mpr ⟨(trailerPrefix ++ k, vals), hm, ?_⟩
  simp [cred_trailer_any_casing k name hn hk, redactedVal]

/-- no header is added or dropped, whatever the flag -/
theorem logged_keys_are_header_keys (h : Hdr) (c : Bool) : (loggableHeader h c).map (·.1) = h.map (·.1) := by
  unfold loggableHeader
  simp [List.map_map, Function.comp_def]

/-- the flag means what it says: with `log_credentials` the header map is logged as is -/
theorem enabled_logs_everything (h : Hdr) : loggableHeader h true = h := loggableHeader_creds h

/-- **taint, one header object.** If something `Bad` (e.g. "contains the secret token") is found in no
    header name and in no value of a non-credential header, it is found nowhere in the logged object. -/
theorem secret_absent_from_header_object (Bad : Bytes → Prop) (h : Hdr) (hh : OnlyInCreds Bad h)
    (hred : ¬ Bad (str "REDACTED")) : ∀ b ∈ hdrStrings (loggableHeader h false), ¬ Bad b :=
  loggableHeader_clean Bad h hh hred

/-- the same with the harness' predicate: `strings.Contains(b, secret)` -/
theorem secret_absent_from_header_object_occurs (secret : Bytes) (h : Hdr)
    (hh : OnlyInCreds (fun b => occurs secret b = true) h) (hred : occurs secret (str "REDACTED") = false) :
    ∀ b ∈ hdrStrings (loggableHeader h false), occurs secret b = false := by
  intro b hb
  have := secret_absent_from_header_object (fun b => occurs secret b = true) h hh (by simp [hred]) b hb
  simpa using this

/-- **taint, request object.** `LoggableHTTPRequest` adds the remote address, protocol, method, host,
    URI and transfer encodings; if the secret is in none of those it is not in the object. -/
theorem secret_absent_from_request_object (Bad : Bytes → Prop) (r : Req) (hh : OnlyInCreds Bad r.hdr)
    (hred : ¬ Bad (str "REDACTED"))
    (hconst : ∀ b ∈ [str "remote_ip", str "remote_port", str "client_ip", str "proto", str "method", str "host",
                     str "uri", str "transfer_encoding"], ¬ Bad b)
    (hpub : ∀ b ∈ [remoteIP r, remotePort r, r.proto, r.method, r.host, r.uri], ¬ Bad b)
    (hcip : ∀ b, r.clientIP = some b → ¬ Bad b) (hte : ∀ l, r.te = some l → ∀ b ∈ l, ¬ Bad b)
    (hpre : ∀ k, ¬ Bad k → ¬ Bad (hdrPrefix ++ k)) :
    ∀ b ∈ fieldStrings (loggableRequest r false), ¬ Bad b := by
  intro b hb
  unfold fieldStrings loggableRequest at hb
  simp only [List.flatMap_append, List.mem_append] at hb
  rcases hb with (((hb | hb) | hb) | hb) | hb
  · simp [fvalStrings] at hb
    rcases hb with rfl | rfl | rfl | rfl
    · exact hconst _ (by simp)
    · exact hpub _ (by simp)
    · exact hconst _ (by simp)
    · exact hpub _ (by simp)
  · cases hc : r.clientIP with
    | none => simp [hc, optField] at hb
    | some ip =>
      simp [hc, optField, fvalStrings] at hb
      rcases hb with rfl | rfl
      · exact hconst _ (by simp)
      · exact hcip _ hc
  · simp [fvalStrings] at hb
    rcases hb with rfl | rfl | rfl | rfl | rfl | rfl | rfl | rfl
    · exact hconst _ (by simp)
    · exact hpub _ (by simp)
    · exact hconst _ (by simp)
    · exact hpub _ (by simp)
    · exact hconst _ (by simp)
    · exact hpub _ (by simp)
    · exact hconst _ (by simp)
    · exact hpub _ (by simp)
  · rcases List.mem_flatMap.mp hb with ⟨f, hf, hb⟩
    rcases List.mem_map.mp hf with ⟨kv, hkv, rfl⟩
    have hclean := loggableHeader_clean Bad r.hdr hh hred
    simp [fvalStrings] at hb
    rcases hb with rfl | hb
    · exact hpre _ (hclean _ (List.mem_flatMap.mpr ⟨kv, hkv, by simp⟩))
    · exact hclean _ (List.mem_flatMap.mpr ⟨kv, hkv, by simp [hb]⟩)
  · cases hc : r.te with
    | none => simp [hc, optArr] at hb
    | some l =>
      simp [hc, optArr, fvalStrings] at hb
      rcases hb with rfl | hb
      · exact hconst _ (by simp)
      · exact hte _ hc _ hb

/-! ## 2. log sites -/

/-- **every site, every handler path.** With `log_credentials` off, whichever route is taken (handler
    answers, handler error, proxy success, proxy error, with or without a preceding rewrite), whichever
    loggers the host maps to: if the secret occurs only in values of credential-named headers of the
    request as received, as rewritten, as sent upstream, of the upstream response and of the final
    response, then it occurs in no header object of any access, error, reverse-proxy or rewrite entry. -/
theorem secret_absent_from_fields (Bad : Bytes → Prop) (s : Scn) (hoff : s.creds = false)
    (hin : OnlyInCreds Bad s.tIn) (hmid : OnlyInCreds Bad s.tMid) (hout : OnlyInCreds Bad s.tOut)
    (hup : OnlyInCreds Bad s.tUp) (hresp : OnlyInCreds Bad s.tResp) (hred : ¬ Bad (str "REDACTED")) :
    ∀ e ∈ siteEntries s, ∀ b ∈ hdrStrings e.hdr, ¬ Bad b := by
  intro e he
  unfold siteEntries at he
  simp only [List.mem_append] at he
  rcases he with ((he | he) | he) | he
  · unfold rewriteEntries at he
    split at he
    · simp at he; subst he
      exact loggableHeader_clean Bad _ hmid hred
    · simp at he
  · unfold proxyEntries at he
    split at he
    · simp at he
      rcases he with rfl | rfl
      · simpa [hoff] using loggableHeader_clean Bad _ hout hred
      · simpa [hoff] using loggableHeader_clean Bad _ hup hred
    · simp at he; subst he
      simpa [hoff] using loggableHeader_clean Bad _ hout hred
    · simp at he
      rcases he with rfl | rfl
      · simpa [hoff] using loggableHeader_clean Bad _ hout hred
      · simpa [hoff] using loggableHeader_clean Bad _ hup hred
    · simp at he
      rcases he with rfl | rfl <;> simpa [hoff] using loggableHeader_clean Bad _ hout hred
    · simp at he
  · unfold errorEntries at he
    split at he
    · rcases List.mem_map.mp he with ⟨n, _, rfl⟩
      simpa [hoff] using loggableHeader_clean Bad _ hin hred
    · simp at he
  · unfold accessEntries at he
    split at he
    · simp at he
    · rcases List.mem_flatMap.mp he with ⟨n, _, he⟩
      simp at he
      rcases he with rfl | rfl
      · simpa [hoff] using loggableHeader_clean Bad _ hin hred
      · simpa [hoff] using loggableHeader_clean Bad _ hresp hred

/-- the rewrite handler's debug entry is redacted even when the server logs credentials
    (it builds `LoggableHTTPRequest{Request: r}` without the flag) -/
theorem rewrite_site_always_redacts (s : Scn) :
    ∀ e ∈ rewriteEntries s, e.hdr = redactSpec s.tMid := by
  intro e he
  unfold rewriteEntries at he
  split at he
  · simp at he; subst he; exact redacted _
  · simp at he

/-- the other three sites use the server's setting and nothing else -/
theorem sites_use_server_flag (s : Scn) :
    ∀ e ∈ proxyEntries s ++ errorEntries s ++ accessEntries s,
      e.hdr = loggableHeader s.tIn s.creds ∨ e.hdr = loggableHeader s.tOut s.creds ∨
      e.hdr = loggableHeader s.tUp s.creds ∨ e.hdr = loggableHeader s.tResp s.creds := by
  intro e he
  simp only [List.mem_append] at he
  rcases he with (he | he) | he
  · unfold proxyEntries at he
    split at he <;> simp at he
    · rcases he with rfl | rfl <;> simp
    · subst he; simp
    · rcases he with rfl | rfl | rfl <;> simp
    · rcases he with rfl | rfl <;> simp
  · unfold errorEntries at he
    split at he
    · rcases List.mem_map.mp he with ⟨n, _, rfl⟩; simp
    · simp at he
  · unfold accessEntries at he
    split at he
    · simp at he
    · rcases List.mem_flatMap.mp he with ⟨n, _, he⟩
      simp at he
      rcases he with rfl | rfl <;> simp

/-! ### response header maps -/

/-- **which sites log a response header map, and how.** Whatever path a proxied request takes — a normal
    response, a response handled by `handle_response` routes, a retried round trip, 101 Switching Protocols
    (HTTP/1.1 Upgrade or extended CONNECT over HTTP/2; the upgrade path itself logs no header object), an
    intercepted response — the only header objects built from a RESPONSE header map are the reverse proxy's
    `headers` (the upstream response as received) and the access log's `resp_headers` (the response as sent),
    both through `LoggableHTTPHeader` with the server's flag. -/
theorem response_header_sites (s : Scn) :
    ∀ e ∈ siteEntries s, (e.obj = str "headers" ∨ e.obj = str "resp_headers") →
      (e.hdr = loggableHeader s.tUp s.creds ∨ e.hdr = loggableHeader s.tResp s.creds) := by
  have h1 : str "request>headers" ≠ str "headers" := by decide
  have h2 : str "request>headers" ≠ str "resp_headers" := by decide
  intro e he hobj
  unfold siteEntries at he
  simp only [List.mem_append] at he
  rcases he with ((he | he) | he) | he
  · unfold rewriteEntries at he
    split at he <;> simp at he
    subst he
    rcases hobj with h | h
    · exact absurd h h1
    · exact absurd h h2
  · unfold proxyEntries at he
    split at he <;> simp at he
    · rcases he with rfl | rfl
      · rcases hobj with h | h
        · exact absurd h h1
        · exact absurd h h2
      · exact Or.inl rfl
    · subst he
      rcases hobj with h | h
      · exact absurd h h1
      · exact absurd h h2
    · rcases he with rfl | rfl
      · rcases hobj with h | h
        · exact absurd h h1
        · exact absurd h h2
      · exact Or.inl rfl
    · rcases he with rfl | rfl <;> rcases hobj with h | h <;> first | exact absurd h h1 | exact absurd h h2
  · unfold errorEntries at he
    split at he
    · rcases List.mem_map.mp he with ⟨n, _, rfl⟩
      rcases hobj with h | h
      · exact absurd h h1
      · exact absurd h h2
    · simp at he
  · unfold accessEntries at he
    split at he
    · simp at he
    · rcases List.mem_flatMap.mp he with ⟨n, _, he⟩
      simp at he
      rcases he with rfl | rfl
      · rcases hobj with h | h
        · exact absurd h h1
        · exact absurd h h2
      · exact Or.inr rfl

/-- **response headers: exactly the credentials are hidden.** Applied to a response header map the wrapper
    replaces the values of `Set-Cookie` (the credential a response carries; also `Cookie`, `Authorization`,
    `Proxy-Authorization` should a response have them) — in any casing, with any number of values, also when
    kept as `Trailer:Set-Cookie` — and nothing else: challenge and handshake headers that merely look similar
    (`Proxy-Authenticate`, `WWW-Authenticate`, `Authentication-Info`, `Upgrade`, `Sec-WebSocket-Accept`) are
    not credentials and are logged as they are. -/
theorem response_headers_hide_exactly_credentials (h : Hdr) :
    loggableHeader h false = h.map (fun kv => if isCred kv.1 then (kv.1, redactedVal) else kv) ∧
    (∀ k, k.map lowerByte = str "set-cookie" → isCred k = true ∧ isCred (trailerPrefix ++ k) = true) ∧
    ([str "Proxy-Authenticate", str "WWW-Authenticate", str "Authentication-Info", str "Upgrade",
      str "Sec-WebSocket-Accept", str "Connection"].all fun k => !isCred k) = true := by
  refine ⟨redacted h, ?_, by decide⟩
  intro k hk
  have hn : str "set-cookie" ∈ credNames := by decide
  exact ⟨cred_any_casing k _ hn hk, cred_trailer_any_casing k _ hn hk⟩

/-! ### regenerated facts (`Gen/*.lean` is rewritten from /repo's source on every run) -/

/-- the names in the `switch` of marshalers.go are the model's `credNames`, and the switch is keyed
    on `strings.ToLower(key)`: editing the list or the folding in the source breaks this theorem -/
theorem redacted_names_match_source :
    Gen.redactionIsCaseFolded = true ∧
    ((Gen.redactedHeaderNames.map str).all (fun n => credNames.contains n) &&
     credNames.all (fun n => (Gen.redactedHeaderNames.map str).contains n)) = true := by decide

/-- kinds of log-site arguments that go through `LoggableHTTPRequest` / `LoggableHTTPHeader` with the
    server's `ShouldLogCredentials` (or with the flag left off). The extractor names the flag expression
    semantically: `server-flag` = it reads a `.ShouldLogCredentials` field, directly, through a local variable or
    through a parameter all of whose callers pass such an expression — whatever the variables are called. -/
def wrappedKind (k : String) : Bool :=
  k == "wrapped" || k == "wrapped-value" || k == "wrappedcred:server-flag"

/-- the one kind of header-derived value that reaches a log field outside the wrappers (found by the data-flow step of
    round h): reverse_proxy's handleUpgradeResponse logs `upgradeType(h)` = the lower-cased `Upgrade` header value
    when `Connection` lists `upgrade` — a protocol token, none of the four credential headers. -/
def upgradeTokenSite (s : String × String × String) : Bool :=
  s.1 == "reverseproxy" && (s.2.1 == "backend_upgrade" || s.2.1 == "requested_upgrade") &&
  s.2.2 == "viavar:raw:net/http.Header:call:upgradeType"

/-- the zap fields under modules/caddyhttp/… whose argument is an object / interface the typed scan cannot look into,
    by (package, key, constructor:type): the automatic-HTTPS debug dump of the two apps (configuration, no request),
    the handler module of the trace log (configuration), the fastcgi environment (its own marshaler `loggableEnv`
    blanks HTTP_COOKIE / HTTP_SET_COOKIE / HTTP_AUTHORIZATION / HTTP_PROXY_AUTHORIZATION under the same flag — taint
    oracle of the site stream, route fcg), the PROXY-protocol header (addresses), recovered panic values, and
    log_append's `zap.Any(h.Key, value)` — the operator-defined extra field modelled in LogAppend.lean. -/
def knownOpaqueFields : List (String × String × String) := [
  ("caddyhttp", "http", "Reflect:*caddyhttp.App"),
  ("caddyhttp", "tls", "Reflect:*caddytls.TLS"),
  ("caddyhttp", "module", "Any:caddyhttp.MiddlewareHandler"),
  ("fastcgi", "env", "Object:fastcgi.loggableEnv"),
  ("logging", "h.Key", "Any:any"),
  ("reverseproxy", "header", "Any:*proxyproto.Header"),
  ("reverseproxy", "error", "Any:interface{}")]

/-- **every log field is classified (unclassified = 0).**  Of ALL zap field constructor calls under
    modules/caddyhttp/… (regenerated census, not only the request-typed ones) each is either classified by the typed
    scan (an entry of `Gen.logSites`, judged by `all_sites_wrapped`), or has arguments of plain type (strings, numbers,
    booleans, durations, times, errors, string slices — no header map or object can travel in them except through a
    local variable, which the data-flow step turns into a `viavar:` site), or is one of the known opaque fields.
    A new `zap.Any` / `zap.Object` / `zap.Reflect` of some structure, or a new header-derived local variable in a
    log field, changes the regenerated facts and breaks this theorem or `all_sites_wrapped`. -/
theorem every_log_field_is_classified :
    Gen.logFieldCalls = Gen.logFieldClassified + Gen.logFieldPlain + Gen.logOpaqueFields.length ∧
    Gen.logOpaqueFields.all (fun s => knownOpaqueFields.contains (s.1, s.2.2.1, s.2.2.2)) = true ∧
    knownOpaqueFields.all (fun k => Gen.logOpaqueFields.any fun s => (s.1, s.2.2.1, s.2.2.2) == k) = true ∧
    0 < Gen.logFieldPlain := by decide

/-- **all sites wrapped.** Every zap field under modules/caddyhttp/… whose argument is (computed from) an
    `*http.Request`, `http.Header`, `http.Response` or cookies goes through the loggable wrappers; the
    modelled sites (by package and field key — function names are free to change) are among them with the flag
    the model gives them.  A new unwrapped log site, or a
    wrapper fed with another flag expression, changes the regenerated table and breaks this theorem. -/
theorem all_sites_wrapped :
    Gen.logSitesScanComplete = true ∧
    Gen.logSites.all (fun s => wrappedKind s.2.2.2 || upgradeTokenSite (s.1, s.2.2.1, s.2.2.2)) = true ∧
    ([("caddyhttp", "request", "wrappedcred:server-flag"),
      ("caddyhttp", "resp_headers", "wrappedcred:server-flag"),
      ("reverseproxy", "request", "wrappedcred:server-flag"),
      ("reverseproxy", "headers", "wrappedcred:server-flag"),
      ("rewrite", "request", "wrapped")].all fun e =>
        Gen.logSites.any fun s => s.1 == e.1 && s.2.2.1 == e.2.1 && s.2.2.2 == e.2.2) = true := by decide

/-- **sites elsewhere are known.** Outside modules/caddyhttp/… exactly one zap field in the whole module is
    computed from a request / response / header: the admin endpoint's own "received request" log
    (admin.go, logger `admin.api`, `zap.Reflect("headers", r.Header)`, not redacted).  That is the request log
    of the ADMIN API — not one of the log kinds the property names (access logs, error logs and reverse-proxy
    debug logs of the HTTP server) — so it is listed here explicitly rather than excused silently: any NEW
    site anywhere in the module that logs request / response / header material changes the regenerated table
    and breaks this theorem. -/
theorem sites_elsewhere_are_known :
    Gen.logSitesElsewhere = [("caddy", "ServeHTTP", "headers", "raw:net/http.Header")] := by decide

/-! ## 3. field filters -/

/-- **delete** emits nothing, for every field type -/
theorem delete_never_emits (o : Oracles) (f : Field) : (applyFilter o .delete f).val = .skip := rfl

/-- **replace** emits the configured value and nothing that depends on the field (non-interference) -/
theorem replace_never_emits_original (o : Oracles) (v : Bytes) (f f' : Field) (hk : f.key = f'.key) :
    applyFilter o (.replace v) f = applyFilter o (.replace v) f' ∧ (applyFilter o (.replace v) f).val = .str v := by
  simp [applyFilter, hk]

/-- **hash**, on the field types it is documented for (string, array of strings): every emitted string
    is the hash of the string at the same position, so the original is emitted only where `H s = s`.
    (Full statement over all field types: `Witness.hash_full_fails`.) -/
theorem hash_never_emits_original_partial (o : Oracles) (f : Field) (hs : stringy f.val = true) :
    (∀ s, f.val = .str s → (applyFilter o .hash f).val = .str (o.H s)) ∧
    (∀ l, f.val = .arr l → (applyFilter o .hash f).val = .arr (l.map o.H)) ∧
    ((∀ s ∈ fvalStrings f.val, o.H s ≠ s) → fvalStrings f.val ≠ [] → (applyFilter o .hash f).val ≠ f.val) := by
  refine ⟨?_, ?_, ?_⟩
  · intro s h; simp [applyFilter, h, mapStr]
  · intro l h; simp [applyFilter, h, mapStr]
  · intro hne hnon
    cases hv : f.val with
    | str s =>
      simp [applyFilter, hv, mapStr]
      exact hne s (by simp [hv, fvalStrings])
    | arr l =>
      simp [applyFilter, hv, mapStr]
      intro heq
      cases l with
      | nil => simp [hv, fvalStrings] at hnon
      | cons x r =>
        simp at heq
        exact hne x (by simp [hv, fvalStrings]) heq.1
    | other t => simp [hv, stringy] at hs
    | skip => simp [hv, stringy] at hs

/-- **cookie.** The emitted `Cookie` array is the rendering of a list of cookies each of which stems
    from a parsed cookie `c` of the input and is either `c` itself — and then no action names it — or
    carries an action's replacement value or the hash of `c`'s value.  A cookie named by an action
    never reaches the output with its own value (short of `H v = v` or a replacement equal to it). -/
theorem cookie_filter_hides_named (o : Oracles) (acts : List Act) (l : List Bytes) :
    ∃ cs', cookieVal o acts (.arr l) = .arr (joinCookies cs') ∧
      ∀ c' ∈ cs', ∃ c ∈ o.cookies l, c'.name = c.name ∧
        ((hiddenBy acts c.name = false ∧ c' = c) ∨
         (∃ a ∈ acts, a.name = c.name ∧ (c'.value = a.value ∨ c'.value = o.H c.value))) := by
  refine ⟨(o.cookies l).filterMap (cookieAct o.H acts), ?_, ?_⟩
  · cases hfm : (o.cookies l).filterMap (cookieAct o.H acts) <;> simp [cookieVal, joinCookies, hfm]
  · intro c' hc'
    rcases List.mem_filterMap.mp hc' with ⟨c, hc, hact⟩
    exact ⟨c, hc, cookieAct_some o.H acts c c' hact⟩

/-- **regexp** (non-interference). With matches in order, the output does not depend on the bytes inside
    the matched spans: two inputs that agree outside them (and have the same matches and expansions)
    give the same output.  The matched text itself is never copied. -/
theorem regexp_filter_hides_matched_spans (o : Oracles) (s1 s2 : Bytes)
    (hsp : o.reSpans s1 = o.reSpans s2) (hw : wfSpans 0 (o.reSpans s1) = true)
    (hagree : ∀ i, covered (o.reSpans s1) i = false → s1[i]? = s2[i]?) :
    reStr o s1 = reStr o s2 := by
  unfold reStr
  rw [← hsp]
  exact reLoop_congr s1 s2 _ 0 hw (fun i _ hc => hagree i hc)

/-- **query.** For every value: either it contains no `?` at all — it has no query part and is returned
    as is — or the output is `pre ? query # post` where `pre`/`post`/the parameters come from `url.Parse`,
    or, when `url.Parse` rejects the value, from cutting it at its first `?` (and the following `#`), and in
    that query every parameter named by an action has only values taken from the action list (a replacement
    value or the hash of one) — never a value of the input.
    (The behaviour before the fallback: `Witness.query_filter_old_code_fails`.) -/
theorem query_filter_hides_param (o : Oracles) (acts : List Act) (s : Bytes) :
    (∃ u, (o.parseURL s = some u ∨ (o.parseURL s = none ∧ fallbackParts o s = some u)) ∧
        queryStr o acts s = urlString u (encodeQuery (applyActs o.H acts u.q)) ∧
        ∀ kv ∈ applyActs o.H acts u.q, hiddenBy acts kv.1 = true → ∀ v ∈ kv.2, v ∈ actConsts o.H acts)
    ∨ ((63 : UInt8) ∉ s ∧ queryStr o acts s = s) := by
  cases hp : o.parseURL s with
  | some u =>
    exact Or.inl ⟨u, Or.inl rfl, by simp [queryStr, hp],
      fun kv hkv hh => applyActs_hidden o.H acts u.q kv hkv hh⟩
  | none =>
    cases hf : fallbackParts o s with
    | some u =>
      exact Or.inl ⟨u, Or.inr ⟨rfl, rfl⟩, by simp [queryStr, hp, hf],
        fun kv hkv hh => applyActs_hidden o.H acts u.q kv hkv hh⟩
    | none =>
      refine Or.inr ⟨?_, by simp [queryStr, hp, hf]⟩
      unfold fallbackParts at hf
      cases hc : cutAt 63 s with
      | none => exact cutAt_none 63 s hc
      | some xy => simp [hc] at hf

/-- the fallback works on literal pieces of the input: the text before the first `?`, the raw query up to
    the next `#` (handed to `url.ParseQuery`), and the rest, which is copied -/
theorem query_fallback_is_textual (o : Oracles) (s : Bytes) (u : URLParts) (h : fallbackParts o s = some u) :
    ∃ rawq, s = u.pre ++ 63 :: rawq ++ u.post ∧ (63 : UInt8) ∉ u.pre ∧ (35 : UInt8) ∉ rawq ∧
      u.q = o.parseQuery rawq ∧ u.force = rawq.isEmpty := by
  unfold fallbackParts at h
  cases hc : cutAt 63 s with
  | none => simp [hc] at h
  | some xy =>
    rcases xy with ⟨before, after⟩
    simp [hc] at h
    have h1 := cutAt_some 63 s before after hc
    unfold splitQuery at h
    cases hd : cutAt 35 after with
    | none =>
      simp [hd] at h
      subst h
      exact ⟨after, by simpa using h1.1, h1.2, cutAt_none 35 after hd, rfl, rfl⟩
    | some rf =>
      rcases rf with ⟨rawq, frag⟩
      simp [hd] at h
      subst h
      have h2 := cutAt_some 35 after rawq frag hd
      refine ⟨rawq, ?_, h1.2, h2.2, rfl, rfl⟩
      rw [h1.1, h2.1]
      simp

/-- parameters no action names come out exactly as `url.Parse` delivered them -/
theorem query_filter_keeps_other_params (o : Oracles) (acts : List Act) (u : URLParts) :
    ∀ kv ∈ applyActs o.H acts u.q, hiddenBy acts kv.1 = false → kv ∈ u.q :=
  fun kv hkv hh => applyActs_untouched o.H acts u.q kv hkv hh

/-- the `hash` action of the query filter writes `hash(action.Value)` — a constant that does not
    depend on the parameter's content (filters.go: `q[a.Parameter][i] = hash(a.Value)`) -/
theorem query_hash_action_is_constant (H : Bytes → Bytes) (q : List (Bytes × List Bytes)) (a : Act)
    (ht : a.typ = .hash) :
    ∀ kv ∈ applyAct H q a, kv.1 = a.name → kv.2 = List.replicate kv.2.length (H a.value) := by
  intro kv hkv hk
  apply List.eq_replicate_iff.mpr
  refine ⟨rfl, ?_⟩
  intro v hv
  unfold applyAct at hkv
  simp [ht] at hkv
  rcases hkv with ⟨k, vs, _, heq⟩
  split at heq
  · subst heq; simp at hv; exact hv.2.symm
  · rename_i hne; subst heq; exact absurd hk hne

/-- **ip_mask.** An element denotes an IP address when `net.ParseIP` accepts its host part with the zone cut
    off (`host`, `host:port`, `[host]:port`, each with or without `%zone`).  For such elements the emitted
    text is a function of the masked address bytes and the port only — two addresses with the same network
    part are logged identically.  (Elements that are not IP addresses have no host bits to hide and are
    copied; the behaviour before the zone fix: `Witness.ipmask_old_code_fails`.) -/
theorem ipmask_hides_host_bits (o : Oracles) (m4 m6 : Option (List UInt8)) (v v' : Bytes) (ip ip' : IPAddr)
    (h1 : o.parseIP (cutZone (hostOf o v)) = some ip) (h2 : o.parseIP (cutZone (hostOf o v')) = some ip')
    (hnet : maskedOf m4 m6 ip = maskedOf m4 m6 ip') (hport : portOf o v = portOf o v') :
    maskValue o m4 m6 v = maskValue o m4 m6 v' := by
  simp [maskValue, h1, h2, hnet, hport]

/-- **zones.** The zone of an address never reaches the log: two elements whose hosts differ only in the
    zone (`fe80::1%eth0`, `fe80::1%wlan1`, `fe80::1`) are logged identically. -/
theorem ipmask_zone_independent (o : Oracles) (m4 m6 : Option (List UInt8)) (v v' : Bytes)
    (hhost : cutZone (hostOf o v) = cutZone (hostOf o v')) (hport : portOf o v = portOf o v')
    (hip : (o.parseIP (cutZone (hostOf o v))).isSome = true) :
    maskValue o m4 m6 v = maskValue o m4 m6 v' := by
  unfold maskValue
  rw [← hhost, ← hport]
  cases h : o.parseIP (cutZone (hostOf o v)) with
  | none => simp [h] at hip
  | some ip => rfl

/-- the string-level glue of `mask` (append `, ` after every element, `TrimSuffix` once) is exactly
    "process every comma-separated element on its own and join with `, `": no element can influence how
    another is treated, and an element whose host `net.ParseIP` accepts is always emitted masked. -/
theorem ipmask_string_is_elementwise (o : Oracles) (m4 m6 : Option (List UInt8)) (s : Bytes) :
    ipMaskStr o m4 m6 s = commaSpace.intercalate ((splitOn 44 s).map fun p => maskValue o m4 m6 (o.trim p)) :=
  ipMaskStr_eq o m4 m6 s

/-- the masks are CIDR masks: byte `i` of a `/ones` mask keeps the top `min 8 (ones - 8 i)` bits -/
theorem cidr_mask_table : (List.range 9).map maskByte = [0, 128, 192, 224, 240, 248, 252, 254, 255] ∧
    ∀ len ones, (cidrBytes (len + 1) ones) = maskByte ones :: cidrBytes len (ones - 8) := by
  refine ⟨by decide, fun _ _ => rfl⟩

/-- **rename** changes the key, never the value (it hides nothing and claims nothing) -/
theorem rename_keeps_value (o : Oracles) (n : Bytes) (f : Field) : (applyFilter o (.rename n) f).val = f.val := rfl

/-! ## non-vacuity: concrete, non-trivial instances (kernel-evaluated) -/

/-- `cOOkie` (two values), `X` and `Proxy-Authorization` (no value) -/
def exHdr : Hdr := [(str "cOOkie", [str "sid=SECRET", str "b=2"]), (str "X", [str "1"]), (str "Proxy-Authorization", [])]

example : (str "cOOkie").map lowerByte = str "cookie" ∧ str "cookie" ∈ credNames := by decide
example : loggableHeader exHdr false =
    [(str "cOOkie", [str "REDACTED"]), (str "X", [str "1"]), (str "Proxy-Authorization", [str "REDACTED"])] := by decide
example : loggableHeader exHdr true = exHdr := by decide
-- the Kelvin sign folds to `k`: `cooKie` is redacted as well
example : isCred ([99, 111, 111, 0xE2, 0x84, 0xAA, 105, 101]) = true := by decide
example : isCred (str "cookie2") = false ∧ isCred (str "x-cookie") = false := by decide
-- trailer-prefixed keys: exact prefix, stripped once
example : isCred (str "Trailer:Set-Cookie") = true ∧ isCred (str "Trailer:aUTHORIZATION") = true ∧
    isCred (str "trailer:Set-Cookie") = false ∧ isCred (str "Trailer:Trailer:Cookie") = false := by decide
example : loggableHeader [(str "Trailer:Set-Cookie", [[], str "sid=SECRET"])] false =
    [(str "Trailer:Set-Cookie", [str "REDACTED"])] := by decide
example : OnlyInCreds (fun b => occurs (str "SECRET") b = true) exHdr := by
  intro kv hkv
  simp [exHdr] at hkv
  rcases hkv with rfl | rfl | rfl <;> decide
example : occurs (str "SECRET") (str "sid=SECRET") = true ∧ occurs (str "SECRET") (str "REDACTED") = false := by decide

def exScn : Scn := ⟨false, false, [[], str "n1"], true, .proxyErr, exHdr, exHdr, exHdr, [], [(str "Set-Cookie", [str "sid=SECRET"])]⟩
example : (siteEntries exScn).map (·.logger) =
    [str "http.handlers.rewrite", str "http.handlers.reverse_proxy", str "http.log.error", str "http.log.error.n1",
     str "http.log.access", str "http.log.access", str "http.log.access.n1", str "http.log.access.n1"] := by decide
example : ∀ e ∈ siteEntries exScn, ∀ b ∈ hdrStrings e.hdr, occurs (str "SECRET") b = false := by decide

-- the fastcgi transport's own debug entry precedes the reverse proxy's
example : (siteEntries { exScn with route := .fcgiErr, rewrote := false, names := [[]] }).map (·.logger) =
    [str "http.reverse_proxy.transport.fastcgi", str "http.handlers.reverse_proxy", str "http.log.error",
     str "http.log.access", str "http.log.access"] := by decide

-- with log_credentials ON the rewrite entry is still redacted, the access entry is not
def exScnOn : Scn := { exScn with creds := true, route := .respond }
example : (siteEntries exScnOn).map (fun e => (e.logger, occurs (str "SECRET") (hdrStrings e.hdr).flatten)) =
    [(str "http.handlers.rewrite", false), (str "http.log.access", true), (str "http.log.access", true),
     (str "http.log.access.n1", true), (str "http.log.access.n1", true)] := by decide

def exReq : Req := ⟨str "10.0.0.1:5", some (str "10.0.0.1", str "5"), some (str "10.0.0.1"), str "HTTP/1.1", str "GET",
  str "a.test", str "/x?y=1", exHdr, some [str "chunked"]⟩
example : (loggableRequest exReq false).map (·.key) =
    [str "remote_ip", str "remote_port", str "client_ip", str "proto", str "method", str "host", str "uri",
     str "headers>cOOkie", str "headers>X", str "headers>Proxy-Authorization", str "transfer_encoding"] := by decide
example : ∀ b ∈ fieldStrings (loggableRequest exReq false), occurs (str "SECRET") b = false := by decide
example : ∃ b ∈ fieldStrings (loggableRequest exReq true), occurs (str "SECRET") b = true := by decide

-- the upstream's 101 answer: Set-Cookie is hidden, the handshake headers are not
example : loggableHeader [(str "Connection", [str "Upgrade"]), (str "Upgrade", [str "websocket"]),
      (str "SET-cookie", [[], str "sid=SECRET"]), (str "Proxy-Authenticate", [str "Basic realm=x"])] false =
    [(str "Connection", [str "Upgrade"]), (str "Upgrade", [str "websocket"]),
      (str "SET-cookie", [str "REDACTED"]), (str "Proxy-Authenticate", [str "Basic realm=x"])] := by decide
-- a retried round trip: two request entries, then the response headers
example : (siteEntries { exScn with route := .proxyRetry, rewrote := false, names := [[]] }).map (fun e => (e.logger, e.obj)) =
    [(str "http.handlers.reverse_proxy", str "request>headers"), (str "http.handlers.reverse_proxy", str "request>headers"),
     (str "http.handlers.reverse_proxy", str "headers"), (str "http.log.access", str "request>headers"),
     (str "http.log.access", str "resp_headers")] := by decide

def exO : Oracles where
  H := fun s => 104 :: s.reverse
  trim := id
  shp := fun s => if s = str "10.1.2.3:80" then some (str "10.1.2.3", str "80") else none
  parseIP := fun s => if s = str "10.1.2.3" then some (.v4 [10, 1, 2, 3]) else if s = str "10.1.9.9" then some (.v4 [10, 1, 9, 9]) else none
  ipStr := fun m => if m = some [10, 1, 0, 0] then str "10.1.0.0" else str "<nil>"
  parseURL := fun s => if s = str "/a?token=S&x=1" then some ⟨str "/a", [], false, [(str "token", [str "S"]), (str "x", [str "1"])]⟩ else none
  parseQuery := fun s => if s = str "token=S&x=1" then [(str "token", [str "S"]), (str "x", [str "1"])] else []
  cookies := fun _ => [⟨str "sid", str "S", false⟩, ⟨str "x", str "1", false⟩, ⟨str "del", str "D", false⟩]
  reSpans := fun s => if s.length = 9 then [⟨0, 5, str "tok=X"⟩] else []

example : applyFilter exO .hash ⟨str "k", .arr [str "ab", str "c"]⟩ = ⟨str "k", .arr [str "hba", str "hc"]⟩ := by decide
example : stringy (.arr [str "ab"]) = true := by decide
example : applyFilter exO (.ipMask 16 32) ⟨str "k", .str (str "10.1.2.3:80,10.1.9.9,unknown")⟩
    = ⟨str "k", .str (str "10.1.0.0:80, 10.1.0.0, unknown")⟩ := by decide
example : maskValue exO (cidr4 16) (cidr6 32) (str "10.1.2.3") = str "10.1.0.0" ∧
    maskValue exO (cidr4 16) (cidr6 32) (str "10.1.9.9") = str "10.1.0.0" ∧
    maskedOf (cidr4 16) (cidr6 32) (.v4 [10, 1, 2, 3]) = maskedOf (cidr4 16) (cidr6 32) (.v4 [10, 1, 9, 9]) := by decide
example : maskValue exO (cidr4 16) (cidr6 32) (str "10.1.2.3:80") = str "10.1.0.0:80" := by decide
example : cutZone (str "fe80::1%eth0") = str "fe80::1" ∧ cutZone (str "10.1.2.3") = str "10.1.2.3" := by decide
-- a zoned link-local address is masked, and the zone is gone
example : maskValue wZ (cidr4 16) (cidr6 32) (str "fe80::1%eth0") = str "fe80::" ∧
    maskValue wZ (cidr4 16) (cidr6 32) (str "fe80::1%wlan1") = str "fe80::" ∧
    (wZ.parseIP (cutZone (hostOf wZ (str "fe80::1%eth0")))).isSome = true := by decide
example : queryStr exO [⟨.delete, str "token", []⟩] (str "/a?token=S&x=1") = str "/a?x=1" := by decide
example : queryStr exO [⟨.replace, str "token", str "R"⟩] (str "/a?token=S&x=1") = str "/a?token=R&x=1" := by decide
example : queryStr exO [⟨.hash, str "token", []⟩] (str "/a?token=S&x=1") = str "/a?token=h&x=1" := by decide
example : hiddenBy [⟨.delete, str "token", []⟩] (str "token") = true := by decide
-- `url.Parse` rejects `%zz/a?token=S&x=1#%zz` (exO.parseURL = none): the query part is filtered all the same
example : exO.parseURL (str "%zz/a?token=S&x=1#%zz") = none ∧
    queryStr exO [⟨.delete, str "token", []⟩] (str "%zz/a?token=S&x=1#%zz") = str "%zz/a?x=1#%zz" ∧
    queryStr exO [⟨.replace, str "token", str "R"⟩] (str "%zz/a?token=S&x=1") = str "%zz/a?token=R&x=1" ∧
    queryStr exO [⟨.delete, str "token", []⟩] (str "%zz/a") = str "%zz/a" := by decide
example : cookieVal exO [⟨.replace, str "sid", str "R"⟩, ⟨.delete, str "del", []⟩] (.arr [str "sid=S; x=1; del=D"])
    = .arr [str "sid=R; x=1"] := by decide
example : reStr exO (str "tok=S;a=1") = str "tok=X;a=1" ∧ wfSpans 0 (exO.reSpans (str "tok=S;a=1")) = true
    ∧ covered (exO.reSpans (str "tok=S;a=1")) 4 = true ∧ covered (exO.reSpans (str "tok=S;a=1")) 5 = false := by decide
example : reStr exO (str "tok=S;a=1") = reStr exO (str "tok=T;a=1") := by decide
example : maskByte 3 = 224 ∧ (0xAB : UInt8) &&& maskByte 3 = (0xBF : UInt8) &&& maskByte 3 := by decide

end CaddyModel.C20
