/-
C20 — the small abstract account the property talks about.

A *secret* is a byte string; "reaches the log" means: occurs inside some byte string that a log
site hands to the encoder (`occurs`).  The theorems are proved for an arbitrary predicate
`Bad : Bytes → Prop` on emitted strings ("contains the secret", "equals the secret", "contains
its base64 form" …); `occurs s` is the instance the harness' taint oracle evaluates.
-/
import CaddyModel.C20.Model

namespace CaddyModel.C20

/-- `strings.Contains(b, s)` -/
def occurs (s : Bytes) : Bytes → Bool
  | [] => s.isEmpty
  | x :: r => s.isPrefixOf (x :: r) || occurs s r

/-- what the property allows a logged header object to be when credentials are not logged:
    same keys, same order, credential headers carry the single value `REDACTED` -/
def redactSpec (h : Hdr) : Hdr := h.map fun kv => if isCred kv.1 then (kv.1, redactedVal) else kv

/-- every byte string a logged header object consists of -/
def hdrStrings (h : Hdr) : List Bytes := h.flatMap fun kv => kv.1 :: kv.2

/-- the secret sits nowhere but in values of credential-named headers -/
def OnlyInCreds (Bad : Bytes → Prop) (h : Hdr) : Prop :=
  ∀ kv ∈ h, ¬ Bad kv.1 ∧ (isCred kv.1 = false → ∀ v ∈ kv.2, ¬ Bad v)

/-- every byte string of a flattened log object -/
def fvalStrings : FVal → List Bytes
  | .str s => [s]
  | .arr l => l
  | _ => []

def fieldStrings (fs : List Field) : List Bytes := fs.flatMap fun f => f.key :: fvalStrings f.val

/-- the filters that are documented to work on "string fields, or arrays of strings" -/
def stringy : FVal → Bool
  | .str _ => true
  | .arr _ => true
  | _ => false

/-- parameter / cookie `k` is named by some action -/
def hiddenBy (acts : List Act) (k : Bytes) : Bool := acts.any fun a => a.name == k

/-- the only values an action list can put in place of a hidden parameter -/
def actConsts (H : Bytes → Bytes) (acts : List Act) : List Bytes := acts.flatMap fun a => [a.value, H a.value]

/-- regexp spans are in order and do not overlap: `last ≤ s₁ ≤ e₁ ≤ s₂ ≤ e₂ …` -/
def wfSpans : Nat → List Span → Bool
  | _, [] => true
  | last, sp :: r => decide (last ≤ sp.s) && decide (sp.s ≤ sp.e) && wfSpans sp.e r

/-- byte index `i` lies inside a matched span -/
def covered (spans : List Span) (i : Nat) : Bool := spans.any fun sp => decide (sp.s ≤ i) && decide (i < sp.e)

/-- the single-element-or-empty array the cookie filter emits -/
def joinCookies (cs : List Cookie) : List Bytes :=
  match cs with
  | [] => []
  | cs => [semiSpace.intercalate (cs.map renderCookie)]

end CaddyModel.C20
