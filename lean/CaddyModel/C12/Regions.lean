/-
C12 — concurrent requests as interleavings of LOCK REGIONS.

`Gen/ConfigLocks.lean` (regenerated from the source, `request_atomicity_matches_source`) says
which stretches of a request are atomic with respect to the config globals:
* a request to /config/… (and /load) does everything inside ONE critical section
  (`readConfig`: read lock; `changeConfig`: write lock from the If-Match read to the commit);
* a request to /id/… has TWO: `handleConfigID` reads the index under the read lock and
  releases it; after the internal redirect the handler runs on the rewritten path in a second
  critical section.
So an interleaving of concurrent requests is an interleaving of these regions: a *schedule*
lists which thread runs its next region (and which request it sends if it is idle).
-/
import CaddyModel.C12.Model

namespace CaddyModel.C12

/-- what a thread is in the middle of -/
inductive Pending where
  | idle
  /-- an /id/ request after its first region: the index has been read, the lock released -/
  | resolved (r : Req) (res : IdRes)
deriving Repr

structure RSys where
  s : State
  pend : Nat → Pending
  /-- the requests that took effect, as the direct requests they amounted to (an /id/ request
      appears with the path it had been resolved to), in the order their last region ran -/
  hist : List Req
  /-- completed requests: thread, request as sent, answer -/
  done : List (Nat × Req × Resp)

def updP (h : Nat → Pending) (c : Nat) (v : Pending) : Nat → Pending := fun c' => if c' = c then v else h c'

/-- second region of an /id/ request: the handler runs on the path resolved in the first -/
def finishId (env : Env) (r : Req) (res : IdRes) (s : State) : State × Resp × Option Req :=
  match res with
  | .fail f => (s, .fail f, none)
  | .ambiguous => (s, .ambiguous, none)
  | .to p =>
    match route p with
    | .config => ((handleConfig env r p s).1, (handleConfig env r p s).2, some { r with path := p })
    | .redirect => (s, .redirect, none)
    | _ => (s, .fail .notFound, none)

/-- thread `c` runs its next lock region; `r` is the request it sends if it is idle -/
def regionStep (env : Env) (y : RSys) (c : Nat) (r : Req) : RSys :=
  match y.pend c with
  | .resolved r0 res =>
    { s := (finishId env r0 res y.s).1, pend := updP y.pend c .idle,
      hist := y.hist ++ (finishId env r0 res y.s).2.2.toList,
      done := y.done ++ [(c, r0, (finishId env r0 res y.s).2.1)] }
  | .idle =>
    if route r.path = .id then
      { y with pend := updP y.pend c (.resolved r (handleConfigID y.s.index r.path)) }
    else
      { s := (serve env r y.s).1, pend := y.pend, hist := y.hist ++ [r],
        done := y.done ++ [(c, r, (serve env r y.s).2)] }

def regionRun (env : Env) (sched : List (Nat × Req)) (y : RSys) : RSys :=
  sched.foldl (fun y cr => regionStep env y cr.1 cr.2) y

/-- all threads idle, nothing recorded -/
def RSys.start (s : State) : RSys := ⟨s, fun _ => .idle, [], []⟩

/-- a serial history: one request after the other, each atomic -/
def serial (env : Env) (reqs : List Req) (s : State) : State := reqs.foldl (fun s r => (serve env r s).1) s

end CaddyModel.C12
