/-
C12 — every interleaving of lock regions is a serial history.
-/
import CaddyModel.C12.Regions
import CaddyModel.C12.CasProof
import CaddyModel.C12.IdResolve

namespace CaddyModel.C12

theorem serial_append (env : Env) (a b : List Req) (s : State) :
    serial env (a ++ b) s = serial env b (serial env a s) := by
  simp [serial, List.foldl_append]

theorem serve_config_path {env : Env} {r : Req} {p : Bytes} {s : State} (h : route p = .config) :
    serve env { r with path := p } s = handleConfig env r p s := by
  unfold serve
  simp only [h]
  exact handleConfig_path_irrelevant env r _ _ s

/-- the second region of an /id/ request is, for the state, the direct request it recorded -/
theorem finishId_serial (env : Env) (r : Req) (res : IdRes) (s : State) :
    (finishId env r res s).1 = serial env (finishId env r res s).2.2.toList s := by
  unfold finishId
  cases res with
  | fail f => simp [serial]
  | ambiguous => simp [serial]
  | to p =>
    simp only
    cases hr : route p <;> simp [serial, Option.toList]
    rw [serve_config_path hr]

/-- the invariant: the state is what the recorded serial history produces -/
theorem regionStep_serial {env : Env} {s0 : State} {y : RSys} (h : y.s = serial env y.hist s0) (c : Nat) (r : Req) :
    (regionStep env y c r).s = serial env (regionStep env y c r).hist s0 := by
  unfold regionStep
  cases hp : y.pend c with
  | resolved r0 res =>
    simp only
    rw [serial_append, ← h]
    exact finishId_serial env r0 res y.s
  | idle =>
    simp only
    split
    · exact h
    · simp only
      rw [serial_append, ← h]
      simp [serial]

theorem regionRun_serial {env : Env} {s0 : State} : ∀ (sched : List (Nat × Req)) (y : RSys),
    y.s = serial env y.hist s0 → (regionRun env sched y).s = serial env (regionRun env sched y).hist s0
  | [], y, h => h
  | cr :: rest, y, h => by
    unfold regionRun
    simp only [List.foldl_cons]
    exact regionRun_serial rest _ (regionStep_serial h cr.1 cr.2)

theorem serial_reachable {env : Env} : ∀ (reqs : List Req) (s : State), Inv s → Inv (serial env reqs s)
  | [], s, h => h
  | r :: rest, s, h => by
    simp only [serial, List.foldl_cons]
    exact serial_reachable rest _ (serve_inv h)

/-- run back to back, the two regions of an /id/ request are the atomic `serve` -/
theorem regions_back_to_back (env : Env) (y : RSys) (c : Nat) (r r' : Req) (hidle : y.pend c = .idle)
    (hid : route r.path = .id) :
    (regionStep env (regionStep env y c r) c r').s = (serve env r y.s).1 ∧
    (regionStep env (regionStep env y c r) c r').done = y.done ++ [(c, r, (serve env r y.s).2)] := by
  have h1 : regionStep env y c r = { y with pend := updP y.pend c (.resolved r (handleConfigID y.s.index r.path)) } := by
    unfold regionStep; simp [hidle, hid]
  rw [h1]
  unfold regionStep
  simp only [updP, if_true]
  unfold finishId serve
  simp only [hid]
  cases handleConfigID y.s.index r.path with
  | fail f => simp
  | ambiguous => simp
  | to p => simp only; cases hr : route p <;> simp [hr]

/-! ### every answer is an answer of the serial history -/

/-- the state after the first `n` requests of the recorded serial history -/
def stateAt (env : Env) (s0 : State) (hist : List Req) (n : Nat) : State := serial env (hist.take n) s0

/-- an answer some thread got is explained by the serial history `hist`: a direct request was
    served atomically in the state after some prefix; an /id/ request was resolved against the
    index of the state after one prefix and its handler ran in the state after a later one -/
def Explained (env : Env) (s0 : State) (hist : List Req) (e : Nat × Req × Resp) : Prop :=
  (∃ n, n ≤ hist.length ∧ e.2.2 = (serve env e.2.1 (stateAt env s0 hist n)).2) ∨
  (∃ m n, m ≤ n ∧ n ≤ hist.length ∧
    e.2.2 = (finishId env e.2.1 (handleConfigID (stateAt env s0 hist m).index e.2.1.path) (stateAt env s0 hist n)).2.1)

theorem stateAt_append {env : Env} {s0 : State} {hist : List Req} (ext : List Req) {n : Nat} (h : n ≤ hist.length) :
    stateAt env s0 (hist ++ ext) n = stateAt env s0 hist n := by
  unfold stateAt; rw [List.take_append_of_le_length h]

theorem stateAt_full (env : Env) (s0 : State) (hist : List Req) : stateAt env s0 hist hist.length = serial env hist s0 := by
  unfold stateAt; rw [List.take_length]

theorem Explained.mono {env : Env} {s0 : State} {hist : List Req} (ext : List Req) {e : Nat × Req × Resp}
    (h : Explained env s0 hist e) : Explained env s0 (hist ++ ext) e := by
  rcases h with ⟨n, hn, h⟩ | ⟨m, n, hmn, hn, h⟩
  · exact Or.inl ⟨n, by simp; omega, by rw [stateAt_append ext hn]; exact h⟩
  · exact Or.inr ⟨m, n, hmn, by simp; omega, by
      rw [stateAt_append ext hn, stateAt_append ext (Nat.le_trans hmn hn)]; exact h⟩

/-- the invariant of an interleaving: the state is the serial state, every answer given so far
    is explained, and every thread between its two regions holds a resolution computed from
    the index of an earlier serial state -/
structure RInv (env : Env) (s0 : State) (y : RSys) : Prop where
  state : y.s = serial env y.hist s0
  answers : ∀ e ∈ y.done, Explained env s0 y.hist e
  pending : ∀ c r res, y.pend c = .resolved r res →
    ∃ m, m ≤ y.hist.length ∧ res = handleConfigID (stateAt env s0 y.hist m).index r.path

theorem rinv_start (env : Env) (s0 : State) : RInv env s0 (RSys.start s0) :=
  ⟨rfl, by intro e he; simp [RSys.start] at he, by intro c r res h; simp [RSys.start] at h⟩

theorem rinv_step {env : Env} {s0 : State} {y : RSys} (hi : RInv env s0 y) (c : Nat) (r : Req) :
    RInv env s0 (regionStep env y c r) := by
  have hstate := regionStep_serial hi.state c r
  refine ⟨hstate, ?_, ?_⟩
  · -- answers
    unfold regionStep
    cases hp : y.pend c with
    | resolved r0 res =>
      simp only
      intro e he
      rcases List.mem_append.1 he with he | he
      · exact (hi.answers e he).mono _
      · simp at he; subst he
        obtain ⟨m, hm, hres⟩ := hi.pending c r0 res hp
        refine Or.inr ⟨m, y.hist.length, hm, by simp, ?_⟩
        simp only
        rw [stateAt_append _ (Nat.le_refl _), stateAt_append _ hm, stateAt_full, ← hi.state, ← hres]
    | idle =>
      simp only
      split
      · exact hi.answers
      · intro e he
        simp only at he
        rcases List.mem_append.1 he with he | he
        · exact (hi.answers e he).mono _
        · simp at he; subst he
          refine Or.inl ⟨y.hist.length, by simp, ?_⟩
          simp only
          rw [stateAt_append _ (Nat.le_refl _), stateAt_full, ← hi.state]
  · -- pending
    unfold regionStep
    cases hp : y.pend c with
    | resolved r0 res =>
      simp only
      intro c' r' res' h
      simp only [updP] at h
      split at h
      · cases h
      · obtain ⟨m, hm, hres⟩ := hi.pending c' r' res' h
        exact ⟨m, by simp; omega, by rw [stateAt_append _ hm]; exact hres⟩
    | idle =>
      simp only
      split
      · intro c' r' res' h
        simp only [updP] at h
        split at h
        · simp at h
          obtain ⟨rfl, rfl⟩ := h
          exact ⟨y.hist.length, Nat.le_refl _, by rw [stateAt_full, ← hi.state]⟩
        · exact hi.pending c' r' res' h
      · intro c' r' res' h
        simp only at h
        obtain ⟨m, hm, hres⟩ := hi.pending c' r' res' h
        exact ⟨m, by simp; omega, by rw [stateAt_append _ hm]; exact hres⟩

theorem rinv_run {env : Env} {s0 : State} : ∀ (sched : List (Nat × Req)) (y : RSys), RInv env s0 y →
    RInv env s0 (regionRun env sched y)
  | [], _, h => h
  | cr :: rest, y, h => by
    unfold regionRun
    simp only [List.foldl_cons]
    exact rinv_run rest _ (rinv_step h cr.1 cr.2)

end CaddyModel.C12
