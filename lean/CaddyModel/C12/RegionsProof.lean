/-
C12 — every interleaving of lock regions is a serial history.
-/
import CaddyModel.C12.Regions
import CaddyModel.C12.CasProof
import CaddyModel.C12.IdResolve

namespace CaddyModel.C12

theorem serial_append (env : Env) (a b : List Req) (s : State) :
    serial env (a ++ b) s = serial env b (serial env a s) := by
  simp [serial, List.foldl_append]

theorem serve_config_path {env : Env} {r : Req} {p : Bytes} {s : State} (h : route p = .config) :
    serve env { r with path := p } s = handleConfig env r p s := by
  unfold serve
  simp only [h]
  exact handleConfig_path_irrelevant env r _ _ s

/-- the second region of an /id/ request is, for the state, the direct request it recorded -/
theorem finishId_serial (env : Env) (r : Req) (res : IdRes) (s : State) :
    (finishId env r res s).1 = serial env (finishId env r res s).2.2.toList s := by
  unfold finishId
  cases res with
  | fail f => simp [serial]
  | ambiguous => simp [serial]
  | to p =>
    simp only
    cases hr : route p <;> simp [serial, Option.toList]
    rw [serve_config_path hr]

/-- the invariant: the state is what the recorded serial history produces -/
theorem regionStep_serial {env : Env} {s0 : State} {y : RSys} (h : y.s = serial env y.hist s0) (c : Nat) (r : Req) :
    (regionStep env y c r).s = serial env (regionStep env y c r).hist s0 := by
  unfold regionStep
  cases hp : y.pend c with
  | resolved r0 res =>
    simp only
    rw [serial_append, ← h]
    exact finishId_serial env r0 res y.s
  | idle =>
    simp only
    split
    · exact h
    · simp only
      rw [serial_append, ← h]
      simp [serial]

theorem regionRun_serial {env : Env} {s0 : State} : ∀ (sched : List (Nat × Req)) (y : RSys),
    y.s = serial env y.hist s0 → (regionRun env sched y).s = serial env (regionRun env sched y).hist s0
  | [], y, h => h
  | cr :: rest, y, h => by
    unfold regionRun
    simp only [List.foldl_cons]
    exact regionRun_serial rest _ (regionStep_serial h cr.1 cr.2)

theorem serial_reachable {env : Env} : ∀ (reqs : List Req) (s : State), Inv s → Inv (serial env reqs s)
  | [], s, h => h
  | r :: rest, s, h => by
    simp only [serial, List.foldl_cons]
    exact serial_reachable rest _ (serve_inv h)

/-- run back to back, the two regions of an /id/ request are the atomic `serve` -/
theorem regions_back_to_back (env : Env) (y : RSys) (c : Nat) (r r' : Req) (hidle : y.pend c = .idle)
    (hid : route r.path = .id) :
    (regionStep env (regionStep env y c r) c r').s = (serve env r y.s).1 ∧
    (regionStep env (regionStep env y c r) c r').done = y.done ++ [(c, r, (serve env r y.s).2)] := by
  have h1 : regionStep env y c r = { y with pend := updP y.pend c (.resolved r (handleConfigID y.s.index r.path)) } := by
    unfold regionStep; simp [hidle, hid]
  rw [h1]
  unfold regionStep
  simp only [updP, if_true]
  unfold finishId serve
  simp only [hid]
  cases handleConfigID y.s.index r.path with
  | fail f => simp
  | ambiguous => simp
  | to p => simp only; cases hr : route p <;> simp [hr]

end CaddyModel.C12
