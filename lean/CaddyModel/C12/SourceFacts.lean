/-
C12 — the assumption behind `Cas.lean` ("every admin request is one atomic step with respect
to the config globals") tied to the source: `Gen/ConfigLocks.lean` is regenerated from
caddy.go / admin.go on every run; the theorem below is re-elaborated whenever it changes.
-/
import CaddyModel.Gen.ConfigLocks

namespace CaddyModel.C12

def isLockOp (e : String) : Bool :=
  ["Lock", "Unlock", "RLock", "RUnlock", "TryLock", "TryRLock",
   "defer:Lock", "defer:Unlock", "defer:RLock", "defer:RUnlock"].contains e

/-- events that read or change `rawCfg` / `rawCfgJSON` / `rawCfgIndex` -/
def touchesConfig (e : String) : Bool :=
  ["call:unsyncedConfigAccess", "call:indexConfigObjects", "call:unsyncedDecodeAndRun",
   "set:rawCfg", "set:rawCfgJSON", "set:rawCfgIndex"].contains e

def eventsOf (name : String) (t : List (String × List String)) : List String :=
  match t.find? (·.1 == name) with
  | some r => r.2
  | none => ["<missing>"]

/-- the function takes `first` as its first statement about the config, releases it only by
    the matching deferred call, and performs no other lock operation: everything it does to
    the config happens inside one critical section that lasts until it returns -/
def oneCriticalSection (first release : String) (evs : List String) : Bool :=
  match evs with
  | a :: b :: rest => a == first && b == "defer:" ++ release && !rest.any isLockOp
  | _ => false

/-- what the transition system of `Cas.lean` assumes of the code:
    * `changeConfig` holds the write lock from before the If-Match read to after the commit
      (check, mutation, index, run, rollback and the two assignments are one critical section);
    * `readConfig` holds the read lock around its one traversal;
    * `unsyncedConfigAccess` itself never locks or unlocks;
    * `handleConfig` reaches the config only through exactly one `readConfig` (GET: body and
      ETag come from that single read) and exactly one `changeConfig`;
    * `handleConfigID` only reads the index, under the read lock -/
def lockDisciplineOK (t : List (String × List String)) : Bool :=
  oneCriticalSection "Lock" "Unlock" (eventsOf "changeConfig" t) &&
  (eventsOf "changeConfig" t).count "call:unsyncedDecodeAndRun" == 1 &&
  (eventsOf "changeConfig" t).count "set:rawCfgJSON" == 1 &&
  oneCriticalSection "RLock" "RUnlock" (eventsOf "readConfig" t) &&
  (eventsOf "readConfig" t).count "call:unsyncedConfigAccess" == 1 &&
  !(eventsOf "unsyncedConfigAccess" t).any isLockOp &&
  (eventsOf "handleConfig" t).count "call:readConfig" == 1 &&
  (eventsOf "handleConfig" t).count "call:changeConfig" == 1 &&
  !(eventsOf "handleConfig" t).any (fun e => isLockOp e || touchesConfig e) &&
  eventsOf "handleConfigID" t == ["RLock", "RUnlock"]

/-- **the atomic steps of the transition system are the critical sections of the code** -/
theorem request_atomicity_matches_source : lockDisciplineOK Gen.configLocks = true := by decide

-- non-vacuity: the predicate rejects the two ways the discipline is typically broken
-- (If-Match check under the read lock, then a separate write-locked section: time of check / time of use)
example : lockDisciplineOK [("changeConfig", ["RLock", "call:unsyncedConfigAccess", "RUnlock", "Lock", "defer:Unlock",
    "call:unsyncedConfigAccess", "call:indexConfigObjects", "call:unsyncedDecodeAndRun", "set:rawCfgJSON", "set:rawCfgIndex"]),
    ("readConfig", ["RLock", "defer:RUnlock", "call:unsyncedConfigAccess"]),
    ("handleConfig", ["call:readConfig", "call:makeEtag", "call:changeConfig"]),
    ("handleConfigID", ["RLock", "RUnlock"]), ("unsyncedConfigAccess", [])] = false := by decide
-- (ETag computed from a second read)
example : lockDisciplineOK [("changeConfig", ["Lock", "defer:Unlock", "call:unsyncedConfigAccess", "call:unsyncedConfigAccess",
    "call:indexConfigObjects", "call:unsyncedDecodeAndRun", "set:rawCfgJSON", "set:rawCfgIndex"]),
    ("readConfig", ["RLock", "defer:RUnlock", "call:unsyncedConfigAccess"]),
    ("handleConfig", ["call:readConfig", "call:readConfig", "call:makeEtag", "call:changeConfig"]),
    ("handleConfigID", ["RLock", "RUnlock"]), ("unsyncedConfigAccess", [])] = false := by decide

end CaddyModel.C12
