/-
C12 — the assumption behind `Cas.lean` ("every admin request is one atomic step with respect
to the config globals") tied to the source: `Gen/ConfigLocks.lean` is regenerated from
caddy.go / admin.go on every run; the theorem below is re-elaborated whenever it changes.
-/
import CaddyModel.Gen.ConfigLocks

namespace CaddyModel.C12

def isLockOp (e : String) : Bool :=
  ["Lock", "Unlock", "RLock", "RUnlock", "TryLock", "TryRLock",
   "defer:Lock", "defer:Unlock", "defer:RLock", "defer:RUnlock"].contains e

/-- events that read or change `rawCfg` / `rawCfgJSON` / `rawCfgIndex` -/
def touchesConfig (e : String) : Bool :=
  ["call:unsyncedConfigAccess", "call:indexConfigObjects", "call:unsyncedDecodeAndRun",
   "set:rawCfg", "set:rawCfgJSON", "set:rawCfgIndex"].contains e

def eventsOf (name : String) (t : List (String × List String)) : List String :=
  match t.find? (·.1 == name) with
  | some r => r.2
  | none => ["<missing>"]

/-- the function takes `first` as its first statement about the config, releases it only by
    the matching deferred call, and performs no other lock operation: everything it does to
    the config happens inside one critical section that lasts until it returns -/
def oneCriticalSection (first release : String) (evs : List String) : Bool :=
  match evs with
  | a :: b :: rest => a == first && b == "defer:" ++ release && !rest.any isLockOp
  | _ => false

/-- what the transition system of `Cas.lean` assumes of the code:
    * `changeConfig` holds the write lock from before the If-Match read to after the commit
      (check, mutation, index, run, rollback and the two assignments are one critical section);
    * `readConfig` holds the read lock around its one traversal;
    * `unsyncedConfigAccess` itself never locks or unlocks;
    * `handleConfig` reaches the config only through exactly one `readConfig` (GET: body and
      ETag come from that single read) and exactly one `changeConfig`;
    * `handleConfigID` only reads the index, under the read lock -/
def lockDisciplineOK (t : List (String × List String)) : Bool :=
  oneCriticalSection "Lock" "Unlock" (eventsOf "changeConfig" t) &&
  (eventsOf "changeConfig" t).count "call:unsyncedDecodeAndRun" == 1 &&
  (eventsOf "changeConfig" t).count "set:rawCfgJSON" == 1 &&
  oneCriticalSection "RLock" "RUnlock" (eventsOf "readConfig" t) &&
  (eventsOf "readConfig" t).count "call:unsyncedConfigAccess" == 1 &&
  !(eventsOf "unsyncedConfigAccess" t).any isLockOp &&
  (eventsOf "handleConfig" t).count "call:readConfig" == 1 &&
  (eventsOf "handleConfig" t).count "call:changeConfig" == 1 &&
  !(eventsOf "handleConfig" t).any (fun e => isLockOp e || touchesConfig e) &&
  eventsOf "handleConfigID" t == ["RLock", "RUnlock"]

/-- **the atomic steps of the transition system are the critical sections of the code** -/
theorem request_atomicity_matches_source : lockDisciplineOK Gen.configLocks = true := by decide

-- non-vacuity: the predicate rejects the two ways the discipline is typically broken
-- (If-Match check under the read lock, then a separate write-locked section: time of check / time of use)
example : lockDisciplineOK [("changeConfig", ["RLock", "call:unsyncedConfigAccess", "RUnlock", "Lock", "defer:Unlock",
    "call:unsyncedConfigAccess", "call:indexConfigObjects", "call:unsyncedDecodeAndRun", "set:rawCfgJSON", "set:rawCfgIndex"]),
    ("readConfig", ["RLock", "defer:RUnlock", "call:unsyncedConfigAccess"]),
    ("handleConfig", ["call:readConfig", "call:makeEtag", "call:changeConfig"]),
    ("handleConfigID", ["RLock", "RUnlock"]), ("unsyncedConfigAccess", [])] = false := by decide
-- (ETag computed from a second read)
example : lockDisciplineOK [("changeConfig", ["Lock", "defer:Unlock", "call:unsyncedConfigAccess", "call:unsyncedConfigAccess",
    "call:indexConfigObjects", "call:unsyncedDecodeAndRun", "set:rawCfgJSON", "set:rawCfgIndex"]),
    ("readConfig", ["RLock", "defer:RUnlock", "call:unsyncedConfigAccess"]),
    ("handleConfig", ["call:readConfig", "call:readConfig", "call:makeEtag", "call:changeConfig"]),
    ("handleConfigID", ["RLock", "RUnlock"]), ("unsyncedConfigAccess", [])] = false := by decide

/-- the routes of `newAdminHandler` that do not concern the config document -/
def otherRoutes : List String := [
  "\"/stop\"|AdminHandlerFunc(handleStop)|0",
  "\"/debug/pprof/\"|http.HandlerFunc(pprof.Index)|0",
  "\"/debug/pprof/cmdline\"|http.HandlerFunc(pprof.Cmdline)|0",
  "\"/debug/pprof/profile\"|http.HandlerFunc(pprof.Profile)|0",
  "\"/debug/pprof/symbol\"|http.HandlerFunc(pprof.Symbol)|0",
  "\"/debug/pprof/trace\"|http.HandlerFunc(pprof.Trace)|0",
  "\"/debug/vars\"|expvar.Handler()|0"]

def cfgRoute : String := "\"/\"+rawConfigKey+\"/\"|AdminHandlerFunc(handleConfig)|0"
def idRoute : String := "\"/id/\"|AdminHandlerFunc(handleConfigID)|0"
def moduleRoutes : String := "route.Pattern|route.Handler|2"

/-- the mux of the model (`route`) is the mux of the code, on the local and on the remote
    endpoint alike: "/config/" → handleConfig and "/id/" → handleConfigID are registered
    exactly once and outside any conditional of `newAdminHandler` (nesting 0: not under
    `if remote`); every other built-in route is one of the known ones (none of which lies
    below /config/ or /id/, so nothing shadows the two handlers); module routes — where
    caddyconfig's /load and /adapt come from — are added in the loop over the `admin.api`
    modules -/
def routesOK (rs : List String) : Bool :=
  rs.count cfgRoute == 1 && rs.count idRoute == 1 && rs.count moduleRoutes == 1 &&
  rs.all fun r => r == cfgRoute || r == idRoute || r == moduleRoutes || otherRoutes.contains r

theorem config_routes_match_source : routesOK Gen.adminRoutes = true := by decide

/-- the pooled buffer a GET is encoded into stays checked out until the response has been
    written: the body is written (`w.Write`), and every `bufferPool.Put` is a deferred call of a
    function that itself performs that write — it cannot run while `buf.Bytes()` is still to be
    sent. (Handed back earlier, an overlapping GET re-uses the buffer and overwrites the bytes
    of the first; the `gg` op exhibits that on the real handler.) -/
def bufferScopeOK (evs : List (String × String)) : Bool :=
  evs.any (fun e => e.2 == "Write") && evs.any (fun e => e.2 == "Get") &&
  evs.all fun e => (e.2 != "Put" && e.2 != "defer:Put") ||
    (e.2 == "defer:Put" && evs.any (fun w => w.2 == "Write" && w.1 == e.1))

theorem response_buffer_scope_matches_source : bufferScopeOK Gen.responseBuffer = true := by decide

-- non-vacuity: the Put deferred in a helper that returns before the handler writes
example : bufferScopeOK [("readConfigWithEtag", "Get"), ("readConfigWithEtag", "defer:Put"), ("handleConfig", "Write")] = false := by decide
-- … while a helper that does all three is fine
example : bufferScopeOK [("serveConfigGET", "Get"), ("serveConfigGET", "defer:Put"), ("serveConfigGET", "Write")] = true := by decide

end CaddyModel.C12
