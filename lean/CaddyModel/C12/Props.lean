/-
C12 — property theorems (kept apart from the helper lemmas).

Statement: the admin API's config endpoints behave as atomic operations on one JSON
document: GET returns exactly the value at the path in the running configuration; POST,
PUT, PATCH and DELETE have their documented effect at the addressed path and nowhere else;
a rejected request changes nothing; an object tagged with @id is reachable under /id/ as
that same object; a write carrying If-Match succeeds only if the addressed value is
unchanged since its ETag was issued, so concurrent read-modify-write cycles never lose an
update; and @id tags never change what the configuration means.

Clauses the code as it is does not satisfy at full strength have their negation proved in
`Witness.lean` (`…_full_fails`) and appear here as `…_partial` with the excluded region as
an explicit decidable predicate.
-/
import CaddyModel.C12.StripLemmas
import CaddyModel.C12.EffectLemmas
import CaddyModel.C12.CasProof
import CaddyModel.C12.IdResolve
import CaddyModel.C12.SourceFacts
import CaddyModel.C12.UniqueLemmas
import CaddyModel.C12.RegionsProof
import CaddyModel.C12.CanonLemmas
import CaddyModel.C12.Witness
import CaddyModel.C12.WireLemmas
import CaddyModel.C12.Warn

namespace CaddyModel.C12

/-! ### histories -/

/-- every state the process can be in: any finite sequence of admin requests, whatever their
    method, path, body, headers, and whatever the apps accept -/
inductive Reachable (env : Env) : State → Prop
  | init : Reachable env initState
  | step {s : State} (r : Req) : Reachable env s → Reachable env (serve env r s).1

theorem reachable_inv {env : Env} {s : State} (h : Reachable env s) : Inv s := by
  induction h with
  | init => exact inv_init
  | step r _ ih => exact serve_inv ih

/-! ### a failing call leaves the tree alone; GET is a pure read; no Go panic -/

/-- **errors are pure.** `unsyncedConfigAccess` mutates `rawCfg` in place and `changeConfig`
    returns its error without rolling anything back; this is sound because a call that
    returns an error (or panics) has not touched the tree — for every method, path, body and
    tree, including PUT which creates intermediate maps before it can know the outcome. -/
theorem error_pure (m : Method) (path : Bytes) (body : Body) (root : Json)
    (h : ∀ out, (access m path body root).2 ≠ .ok out) : (access m path body root).1 = root :=
  access_notok_pure h

/-- GET never modifies the tree -/
theorem get_pure (path : Bytes) (body : Body) (root : Json) : (access .get path body root).1 = root :=
  access_get_pure path body root

/-- the index expressions `arr[idx]`, `v[partInt]`, `arr[idx+1:]` never go out of range -/
theorem access_never_panics (m : Method) (path : Bytes) (body : Body) (root : Json) :
    (access m path body root).2 ≠ .panic :=
  access_no_panic m path body root

/-! ### GET is lookup; each write has its documented effect at the path and nowhere else -/

/-- the parts `unsyncedConfigAccess` walks for a request path -/
abbrev partsOf (path : Bytes) : List Bytes := (pathParts path).1

theorem access_ok_trav {m : Method} {path : Bytes} {body : Body} {root : Json} {o : Option Json}
    (h : (access m path body root).2 = .ok o) :
    access m path body root = trav m (pathParts path).2 (bodyVal body) (partsOf path) root := by
  unfold access at h ⊢
  by_cases hb : body = .bad
  · simp [hb] at h
  · by_cases ht : trimSlash path = []
    · simp [hb, ht] at h
    · simp [hb, ht]

theorem guard_of_obj {parts : List Bytes} {kvs : Obj} : Guard parts (.obj kvs) := by
  intro xs h; cases h

/-- **GET returns the value at the path** (soundness): whatever GET writes is the value the
    path names in the tree — or `null` for a key the addressed object does not have. -/
theorem get_is_lookup (path : Bytes) (body : Body) (root v : Json)
    (h : (access .get path body root).2 = .ok (some v)) :
    sget (partsOf path) root = some v ∨ (v = .null ∧ sget (partsOf path) root = none) := by
  have ht := access_ok_trav h
  rw [ht] at h
  obtain ⟨v', hv', hs⟩ := step_get_sound (trav_step_out _ _ _ _ _ _ h)
  simp at hv'; subst hv'; exact hs

/-- **… and every value is returned** (completeness): whatever value the path names in the
    tree — object member, array element, element of an array that is itself an element of an
    array (which the code before /repo's fix could not reach, `get_is_lookup_old_code_fails`)
    — GET writes exactly it and leaves the tree alone. -/
theorem get_returns_every_value (path : Bytes) (kvs : Obj) (v : Json) (hpath : trimSlash path ≠ [])
    (hne : partsOf path ≠ []) (hv : sget (partsOf path) (.obj kvs) = some v) :
    access .get path .empty (.obj kvs) = (.obj kvs, .ok (some v)) := by
  have h2 := trav_get_complete (pathParts path).2 .null (partsOf path) (.obj kvs) v hne hv guard_of_obj
  have h1 := access_get_pure path .empty (.obj kvs)
  have h3 : access .get path .empty (.obj kvs) = trav .get (pathParts path).2 .null (partsOf path) (.obj kvs) := by
    unfold access; simp [hpath, bodyVal]
  rw [h3] at h1 ⊢
  exact Prod.ext h1 h2

/-- **PUT**: afterwards the path names the body (a new object member, or the element
    inserted at that index; intermediate objects are created on the way). `partsOf path ≠ []`
    only excludes the degenerate path "/...", which no handler passes on. -/
theorem write_effect_put (path : Bytes) (body : Body) (kvs : Obj) (o : Option Json)
    (h : (access .put path body (.obj kvs)).2 = .ok o) (hne : partsOf path ≠ []) :
    sget (partsOf path) (access .put path body (.obj kvs)).1 = some (bodyVal body) := by
  have ht := access_ok_trav h
  rw [ht] at h ⊢
  exact step_put_effect (trav_step _ _ _ _ _ o hne h guard_of_obj)

/-- **PATCH**: afterwards the path names the body. -/
theorem write_effect_patch (path : Bytes) (body : Body) (kvs : Obj) (o : Option Json)
    (h : (access .patch path body (.obj kvs)).2 = .ok o) (hne : partsOf path ≠ []) :
    sget (partsOf path) (access .patch path body (.obj kvs)).1 = some (bodyVal body) := by
  have ht := access_ok_trav h
  rw [ht] at h ⊢
  exact step_patch_effect (trav_step _ _ _ _ _ o hne h guard_of_obj)

/-- **POST**: the addressed array has the body (or, with `...`, the body's elements)
    appended — the array being named by the path or by the path minus a trailing index,
    which POST ignores — or, where there is no array, the path names the body. -/
theorem write_effect_post (path : Bytes) (body : Body) (kvs : Obj) (o : Option Json)
    (h : (access .post path body (.obj kvs)).2 = .ok o) (hne : partsOf path ≠ []) :
    PostEffect (pathParts path).2 (bodyVal body) (partsOf path) (.obj kvs) (access .post path body (.obj kvs)).1 := by
  have ht := access_ok_trav h
  rw [ht] at h ⊢
  exact step_post_effect (trav_step _ _ _ _ _ o hne h guard_of_obj)

/-- **DELETE**: the array is one element shorter (that element), or the object no longer
    has the key. -/
theorem write_effect_delete (path : Bytes) (body : Body) (kvs : Obj) (o : Option Json)
    (h : (access .delete path body (.obj kvs)).2 = .ok o) (hne : partsOf path ≠ []) :
    DeleteEffect (partsOf path) (.obj kvs) (access .delete path body (.obj kvs)).1 := by
  have ht := access_ok_trav h
  rw [ht] at h ⊢
  exact step_delete_effect (trav_step _ _ _ _ _ o hne h guard_of_obj)

/-- **… and nowhere else.** For every method, body and outcome: a path `q` that parts ways
    with the path of the container the request ends in (a different key, or a different
    array index, at some level both reach) reads the same value before and after. -/
theorem write_frame (m : Method) (path : Bytes) (body : Body) (root : Json) (q : List Bytes)
    (hq : apart q (partsOf path).dropLast root = true) :
    sget q (access m path body root).1 = sget q root := by
  unfold access
  split
  · rfl
  · split
    · rfl
    · exact trav_frame _ _ _ _ _ _ hq

/-! ### If-Match is compare-and-swap; concurrent read–modify–write never loses an update -/

/-- **If-Match.** A write carrying `If-Match: "<p> <h>"` gets past the check — is loaded, or
    found unchanged — only if the hash of what GET `p` returns *now* is `h`; when the hash
    separates the values involved, only if the value at `p` is the one the ETag was issued
    for.  Otherwise: 412 (or the error of that GET) and nothing has happened. -/
theorem if_match_succeeds_only_if_unchanged {env : Env} {m : Method} {path : Bytes} {body : Body} {force : Bool}
    {s : State} {p h : Bytes} (hp : p ≠ []) (hps : noSpace p) (hh : h ≠ []) (hhs : noSpace h)
    (hok : (change env m path body (mkEtag p h) force s).2 = .ok ∨ (change env m path body (mkEtag p h) force s).2 = .same) :
    ∃ out, (access .get p .empty s.rawCfg).2 = .ok out ∧ env.hash out = h := by
  rw [change_cas hp hps hh hhs] at hok
  generalize access .get p .empty s.rawCfg = ar at hok ⊢
  obtain ⟨a, r⟩ := ar
  cases r with
  | err e => simp at hok
  | panic => simp at hok
  | ok out =>
    refine ⟨out, rfl, ?_⟩
    simp only at hok
    by_cases hne : env.hash out ≠ h
    · simp [hne] at hok
    · simpa using hne

theorem if_match_mismatch_changes_nothing {env : Env} {m : Method} {path : Bytes} {body : Body} {force : Bool}
    {s : State} {p h : Bytes} (hp : p ≠ []) (hps : noSpace p) (hh : h ≠ []) (hhs : noSpace h) (out : Option Json)
    (hget : (access .get p .empty s.rawCfg).2 = .ok out) (hne : env.hash out ≠ h) :
    change env m path body (mkEtag p h) force s = (s, .precondition) := by
  rw [change_cas hp hps hh hhs]
  generalize access .get p .empty s.rawCfg = ar at hget ⊢
  obtain ⟨a, r⟩ := ar
  simp only at hget
  subst hget
  simp [hne]

/-- **no lost update.** (The atomicity of a request that this transition system takes for
    granted is tied to the source by `request_atomicity_matches_source`.) Any number of clients run GET + conditional PATCH cycles on `p`,
    interleaved in any order (every schedule, any length; a client may be arbitrarily stale,
    writes may be refused by the check, by the indexer or by the apps).  Then the
    acknowledged writes form a chain: each was computed from exactly the value the previous
    acknowledged write left behind, and the value at `p` is the end of that chain. -/
theorem cas_no_lost_update {env : Env} {p : Bytes} {f : Nat → Option Json → Json} {V : Option Json → Prop}
    (hyp : CasHyp env p f V) {s0 : State} (hs0 : Reachable env s0)
    {v0 : Json} (hv0 : (access .get p .empty s0.rawCfg).2 = .ok (some v0)) (hV0 : V (some v0)) (sched : List Nat) :
    ∃ v, (access .get p .empty (runSched env p f sched ⟨s0, fun _ => none, []⟩).s.rawCfg).2 = .ok (some v) ∧
      chain f v0 (runSched env p f sched ⟨s0, fun _ => none, []⟩).log = some v := by
  have h0 : CasInv p f V v0 ⟨s0, fun _ => none, []⟩ :=
    ⟨reachable_inv hs0, ⟨v0, hv0, rfl, hV0⟩, by intro c ep out h; cases h⟩
  obtain ⟨v, h1, h2, _⟩ := (cas_run hyp sched _ h0).cur
  exact ⟨v, h1, h2⟩

/-- the counter reading: if every write adds one, the final count is the initial count plus
    the number of acknowledged writes — none is lost, none is applied twice -/
theorem cas_counter {env : Env} {p : Bytes} {f : Nat → Option Json → Json} {V : Option Json → Prop}
    (hyp : CasHyp env p f V) {s0 : State} (hs0 : Reachable env s0)
    {v0 : Json} (hv0 : (access .get p .empty s0.rawCfg).2 = .ok (some v0)) (hV0 : V (some v0))
    (size : Json → Nat) (hsz : ∀ c v, size (f c (some v)) = size v + 1) (sched : List Nat) :
    ∃ v, (access .get p .empty (runSched env p f sched ⟨s0, fun _ => none, []⟩).s.rawCfg).2 = .ok (some v) ∧
      size v = size v0 + (runSched env p f sched ⟨s0, fun _ => none, []⟩).log.length := by
  obtain ⟨v, h1, h2⟩ := cas_no_lost_update hyp hs0 hv0 hV0 sched
  exact ⟨v, h1, chain_size f size hsz _ _ _ h2⟩

/-- **reading changes nothing.** A GET (and HEAD or any other method the handlers answer 405)
    to any path — /config/…, /id/…, /load, /adapt, anything else — leaves every global as it
    was, whatever it answers. -/
theorem read_request_changes_nothing (env : Env) (r : Req) (s : State)
    (hm : r.method = .get ∨ r.method = .other) : (serve env r s).1 = s := by
  have hcfg : ∀ p, (handleConfig env r p s).1 = s := by
    intro p
    unfold handleConfig
    rcases hm with h | h <;> simp only [h]
    · split <;> rfl
  unfold serve
  split
  · rfl
  · rfl
  · exact hcfg _
  · unfold handleLoad
    rcases hm with h | h <;> simp [h]
  · exact handleAdapt_pure env r s
  · split
    · rfl
    · rfl
    · split
      · exact hcfg _
      · rfl
      · rfl

/-- **what a GET answers does not depend on other reads**, before it or overlapping with it:
    any number of GET (or 405-answered) requests to any paths leave the state alone, so a
    read served after them — or, in an interleaving, around them — is answered exactly as it
    would have been alone: the value at ITS path, with the ETag of that value. (The `gg` op
    holds the real handler to this with GETs that overlap inside one another.) -/
theorem get_answer_is_independent_of_other_reads (env : Env) (r : Req) :
    ∀ (others : List Req) (s : State), (∀ o ∈ others, o.method = .get ∨ o.method = .other) →
      serve env r (serial env others s) = serve env r s
  | [], _, _ => rfl
  | o :: rest, s, h => by
    simp only [serial, List.foldl_cons]
    rw [read_request_changes_nothing env o s (h o (by simp))]
    exact get_answer_is_independent_of_other_reads env r rest s (fun x hx => h x (by simp [hx]))

/-! ### atomicity: the document, the index and the running apps always agree -/

/-- **one document.** After any history: the tree GET reads from is the configuration that was
    last loaded; the `/id/` index is the index of exactly that configuration; and the apps
    are running exactly that configuration with the `@id` members removed. No request —
    accepted, unchanged, rejected by the traversal, by the indexer or by the apps — leaves
    the three out of step. -/
theorem running_config_is_document {env : Env} {s : State} (h : Reachable env s) :
    cfgOf s.rawCfg = encodeOf s.rawCfgJSON ∧
    s.running = s.rawCfgJSON.map stripIds ∧
    (∀ j, s.rawCfgJSON = some j → indexJ j (slash :: cfgKey) = some s.index) := by
  have hi := reachable_inv h
  refine ⟨hi.doc, hi.run, ?_⟩
  intro j hj
  have := hi.idx
  rw [hj] at this
  exact this

/-- **a rejected request changes nothing.** After any history, any request that is not
    answered 200 (traversal error, 409/404, malformed or failed If-Match, index failure, load
    rejected by the apps, unknown id, 301, 405) leaves `rawCfg`, `rawCfgJSON`, the id index
    and the running configuration exactly as they were — including right after
    `DELETE /config/`, where the code before /repo's fix re-created the deleted key
    (`rejected_changes_nothing_old_code_fails`). -/
theorem rejected_changes_nothing {env : Env} {s : State} (h : Reachable env s) (r : Req)
    (hrej : (serve env r s).2.rejected = true) : (serve env r s).1 = s :=
  serve_rejected (reachable_inv h) hrej

/-! ### /load and /adapt (caddyconfig/load.go) write and read the same document -/

/-- `pathParts "/config"` -/
theorem parts_cfg : pathParts (slash :: cfgKey) = ([cfgKey], false) := by decide

/-- `POST /config <doc>` on `rawCfg`: the document is replaced — unless the current one is an
    array, to which POST appends -/
theorem access_post_cfg {root j : Json} (hr : RootShape root) (hna : ∀ xs, cfgOf root ≠ .arr xs) :
    access .post (slash :: cfgKey) (.val j) root = (.obj [(cfgKey, j)], .ok none) := by
  have ht : trimSlash (slash :: cfgKey) ≠ [] := by decide
  unfold access
  simp only [ht, if_false, parts_cfg, bodyVal]
  rcases hr with h | ⟨d, h⟩ <;> subst h
  · simp [trav_obj_last, lookup, lastOp, setKey, insertSorted]
  · rw [trav_obj_last]
    have hd : ∀ xs, d ≠ .arr xs := by
      intro xs hx; exact hna xs (by simp [cfgOf, lookup, encodeOf, hx])
    cases d <;> simp_all [lookup, lastOp, setKey, replaceKey]

/-- **/load is an unconditional `POST /config`.** For a JSON body (no Content-Type, or one
    that ends in "/json") the endpoint is exactly
    `changeConfig(POST, "/config", body, "", forceReload)`: same lock, same mutation, same
    unchanged test, index, run and rollback as a request to /config/ — so every theorem about
    `change` (atomicity, rejected-changes-nothing, the state invariant) covers it; no
    Content-Type requirement and **no If-Match**: the header is not looked at. -/
theorem load_is_unconditional_post_config (env : Env) (r : Req) (s : State) (hp : r.path = loadPath)
    (hm : r.method = .post) (hct : r.ct = .none ∨ r.ct = .json ∨ r.ct = .jsonParams) :
    serve env r s = ((change env .post (slash :: cfgKey) r.body [] r.force s).1,
                     loadResp (change env .post (slash :: cfgKey) r.body [] r.force s).2) := by
  have hr : route loadPath = .load := by decide
  unfold serve
  rw [hp, hr]
  simp only [handleLoad, hm]
  rcases hct with h | h | h <;> simp [h, adaptByContentType]

/-- **/load replaces the entire configuration.** An accepted /load (JSON or adapted body `j`)
    leaves exactly `j` as the document GET reads from — whatever was there before (the
    hypothesis excludes only a current document that is an array, which no run step accepts). -/
theorem load_replaces_document {env : Env} {s : State} (h : Reachable env s) (r : Req) (j : Json)
    (hp : r.path = loadPath) (hm : r.method = .post)
    (hb : adaptByContentType env r.ct r.body = .body (.val j))
    (hna : ∀ xs, cfgOf s.rawCfg ≠ .arr xs) (hok : (serve env r s).2 = .okWrite) :
    cfgOf (serve env r s).1.rawCfg = j := by
  have hi := reachable_inv h
  have hr : route loadPath = .load := by decide
  unfold serve at hok ⊢
  rw [hp, hr] at hok ⊢
  simp only [handleLoad, hm, hb] at hok ⊢
  have hne : ¬ (HMethod.post ≠ HMethod.post) := by simp
  simp only [hne, if_false] at hok ⊢
  have hacc : (change env .post (slash :: cfgKey) (.val j) [] r.force s).2 = .ok ∨
      (change env .post (slash :: cfgKey) (.val j) [] r.force s).2 = .same := by
    generalize (change env .post (slash :: cfgKey) (.val j) [] r.force s).2 = c at hok
    cases c <;> simp_all [loadResp, changeResp]
  have hch : change env .post (slash :: cfgKey) (.val j) [] r.force s =
      mutate env .post (slash :: cfgKey) (.val j) r.force s := by simp [change]
  rw [hch] at hacc ⊢
  obtain ⟨hroot, _⟩ := mutate_accepted hacc
  rw [hroot, access_post_cfg hi.shape hna]
  simp [cfgOf, lookup, encodeOf]

/-- the If-Match header plays no part in /load -/
theorem load_ignores_if_match (env : Env) (r : Req) (s : State) (hp : r.path = loadPath) (x : Bytes) :
    serve env { r with ifMatch := x } s = serve env r s := by
  have hr : route loadPath = .load := by decide
  unfold serve
  simp only [hp, hr, handleLoad]

/-- **/adapt is a pure function of the request**: whatever it answers, the state is untouched -/
theorem adapt_changes_nothing (env : Env) (r : Req) (s : State) (hp : r.path = adaptPath) :
    (serve env r s).1 = s := by
  have hr : route adaptPath = .adapt := by decide
  unfold serve
  rw [hp, hr]
  exact handleAdapt_pure env r s

/-! ### interleavings of lock regions (`Regions.lean`) -/

theorem serial_preserves_reachable {env : Env} : ∀ (reqs : List Req) {s : State}, Reachable env s →
    Reachable env (serial env reqs s)
  | [], _, h => h
  | r :: rest, _, h => by
    simp only [serial, List.foldl_cons]
    exact serial_preserves_reachable rest (.step r h)

/-- **every interleaving of lock regions is a serial history.** Any number of threads send
    any requests; a /config/ or /load request is one critical section, an /id/ request two
    (index read; handler on the rewritten path), and the regions interleave in any order.
    Then the state at the end is the state a *serial* history produces: the requests that took
    effect, one after the other, each atomic — an /id/ request counted as the direct request to
    the path it had been resolved to, at the moment its second region ran. -/
theorem interleaving_is_serial_history (env : Env) (s0 : State) (sched : List (Nat × Req)) :
    (regionRun env sched (RSys.start s0)).s = serial env (regionRun env sched (RSys.start s0)).hist s0 :=
  regionRun_serial sched (RSys.start s0) rfl

/-- … hence every state any interleaving passes through is a reachable state: the document,
    the id index, the loaded configuration and the running apps agree, rejected requests have
    changed nothing, no object has a key twice — all theorems over histories apply. -/
theorem interleaved_states_are_reachable {env : Env} {s0 : State} (h : Reachable env s0) (sched : List (Nat × Req)) :
    Reachable env (regionRun env sched (RSys.start s0)).s := by
  rw [interleaving_is_serial_history]
  exact serial_preserves_reachable _ h

/-- **every answer is an answer of the serial history.** In any interleaving, whatever any
    thread was told is what the atomic model answers in a state of that one serial history:
    a direct request in the state after some prefix; an /id/ request resolved against the index
    after one prefix and handled in the state after a later one. No request ever observes an
    intermediate state of another — in particular none sees the tree of a write that ends up
    rejected while it is being run and rolled back (what the `peek` op samples on the real
    handler), and a GET's body and ETag come from the same state. -/
theorem every_answer_is_an_answer_of_the_serial_history (env : Env) (s0 : State) (sched : List (Nat × Req)) :
    ∀ e ∈ (regionRun env sched (RSys.start s0)).done,
      Explained env s0 (regionRun env sched (RSys.start s0)).hist e :=
  (rinv_run sched _ (rinv_start env s0)).answers

/-- run back to back, the two regions of an /id/ request are the atomic request `serve` models -/
theorem id_request_back_to_back_is_atomic (env : Env) (y : RSys) (c : Nat) (r r' : Req)
    (hidle : y.pend c = .idle) (hid : route r.path = .id) :
    (regionStep env (regionStep env y c r) c r').s = (serve env r y.s).1 ∧
    (regionStep env (regionStep env y c r) c r').done = y.done ++ [(c, r, (serve env r y.s).2)] :=
  regions_back_to_back env y c r r' hidle hid

/-- **an accepted If-Match write was computed from the current document.** Whatever ran
    between the client's GET and the critical section in which its write executes — and,
    for a write through /id/, between the index read and that section: if the write is
    answered 200, then *in the state of that critical section* the value at the If-Match path
    hashes to the If-Match hash. -/
theorem accepted_if_match_write_used_current_document {env : Env} {r : Req} {p : Bytes} {s : State} {q h : Bytes}
    (hq : q ≠ []) (hqs : noSpace q) (hh : h ≠ []) (hhs : noSpace h) (hifm : r.ifMatch = mkEtag q h)
    (hacc : (handleConfig env r p s).2 = .okWrite) :
    ∃ out, (access .get q .empty s.rawCfg).2 = .ok out ∧ env.hash out = h := by
  unfold handleConfig at hacc
  split at hacc
  · split at hacc <;> simp at hacc
  · simp at hacc
  · split at hacc
    · simp at hacc
    · split at hacc
      · simp at hacc
      · next m _ _ =>
        simp only at hacc
        rw [hifm] at hacc
        exact if_match_succeeds_only_if_unchanged hq hqs hh hhs ((changeResp_ok_iff _).1 hacc)

/-- the same, as it appears in an interleaving: the second region of a conditional write
    through /id/ checks the document as it is *then* -/
theorem id_write_checks_current_document {env : Env} {r : Req} {p : Bytes} {s : State} {q h : Bytes}
    (hq : q ≠ []) (hqs : noSpace q) (hh : h ≠ []) (hhs : noSpace h) (hifm : r.ifMatch = mkEtag q h)
    (hroute : route p = .config) (hacc : (finishId env r (.to p) s).2.1 = .okWrite) :
    ∃ out, (access .get q .empty s.rawCfg).2 = .ok out ∧ env.hash out = h := by
  unfold finishId at hacc
  simp only [hroute] at hacc
  exact accepted_if_match_write_used_current_document hq hqs hh hhs hifm hacc

/-! ### unchanged configurations, forced reloads -/

/-- **an unchanged configuration is not reloaded** — unless the client forces it: when the
    mutation leaves the document equal to the last loaded one and `Cache-Control:
    must-revalidate` is absent, `changeConfig` returns errSameConfig (answered 200): the apps
    are not restarted, the index and `rawCfgJSON` are untouched, and the tree GET reads from is
    the mutated one, i.e. still that document. -/
theorem unchanged_config_is_not_reloaded (env : Env) (s : State) (root : Json)
    (hsame : s.rawCfgJSON = some (cfgOf root)) :
    commit env false s root = ({ s with rawCfg := root }, .same) := by
  simp [commit, hsame]

/-- **a forced reload reloads**: with `Cache-Control: must-revalidate` the same situation goes
    through index, run and commit; if the apps accept, they are started once more with the
    same (stripped) document; if they reject, everything is restored. -/
theorem forced_reload_reloads (env : Env) (s : State) (root : Json) :
    ((commit env true s root).2 = .ok ∧ (commit env true s root).1.loads = s.loads + 1 ∧
      (commit env true s root).1.running = some (stripIds (cfgOf root)) ∧
      (commit env true s root).1.rawCfgJSON = some (cfgOf root)) ∨
    (((commit env true s root).2 = .index ∨ (commit env true s root).2 = .load) ∧
      (commit env true s root).1 = restore s root) := by
  unfold commit
  simp only [Bool.not_true, Bool.false_and, Bool.false_eq_true, if_false]
  cases indexJ (cfgOf root) (slash :: cfgKey) with
  | none => exact Or.inr ⟨Or.inl rfl, rfl⟩
  | some idx =>
    simp only
    split
    · exact Or.inr ⟨Or.inr rfl, rfl⟩
    · exact Or.inl ⟨rfl, rfl, rfl, rfl⟩

/-- **an accepted change is loaded**: whenever `changeConfig` commits (answer 200, not
    "unchanged"), the apps have been started exactly once more, with the new document minus
    `@id`; `rawCfgJSON` and the index are those of the new document. (What the oracle checks as
    `config-changed-without-load` / `apps-saw-different-config`.) -/
theorem accepted_change_is_loaded (env : Env) (force : Bool) (s : State) (root : Json)
    (h : (commit env force s root).2 = .ok) :
    (commit env force s root).1.loads = s.loads + 1 ∧
    (commit env force s root).1.running = some (stripIds (cfgOf root)) ∧
    (commit env force s root).1.rawCfgJSON = some (cfgOf root) ∧
    indexJ (cfgOf root) (slash :: cfgKey) = some (commit env force s root).1.index ∧
    (commit env force s root).1.rawCfg = root := by
  unfold commit at h ⊢
  split
  · next hc => simp [hc] at h
  · next hc =>
    simp only [hc] at h
    cases hi : indexJ (cfgOf root) (slash :: cfgKey) with
    | none => simp [hi] at h
    | some idx =>
      simp only [hi] at h ⊢
      split
      · next hb => simp [hb] at h
      · exact ⟨rfl, rfl, rfl, rfl, rfl⟩

/-- **a fresh If-Match is never refused as stale**: when the hash of what GET `p` returns now
    is the If-Match hash, the check lets the write through — the outcome is that of the same
    write without the header. (What the oracle checks as `if-match-fresh-write-refused`.) -/
theorem fresh_if_match_is_not_refused {env : Env} {m : Method} {path : Bytes} {body : Body} {force : Bool}
    {s : State} {p h : Bytes} (hp : p ≠ []) (hps : noSpace p) (hh : h ≠ []) (hhs : noSpace h) (out : Option Json)
    (hget : (access .get p .empty s.rawCfg).2 = .ok out) (heq : env.hash out = h) :
    change env m path body (mkEtag p h) force s = change env m path body [] force s := by
  rw [change_cas hp hps hh hhs]
  generalize access .get p .empty s.rawCfg = ar at hget ⊢
  obtain ⟨a, r⟩ := ar
  simp only at hget
  subst hget
  simp [heq, change]

/-! ### the representation invariant of Go maps -/

/-- histories whose request bodies are trees without duplicate object keys — which is what
    `encoding/json` decodes any body into -/
inductive ReachableUK (env : Env) : State → Prop
  | init : ReachableUK env initState
  | step {s : State} (r : Req) : bodyUK r.body → ReachableUK env s → ReachableUK env (serve env r s).1

theorem ReachableUK.reachable {env : Env} {s : State} (h : ReachableUK env s) : Reachable env s := by
  induction h with
  | init => exact .init
  | step r _ _ ih => exact .step r ih

/-- **no key twice, ever.** Every operation of the API (all five methods, array and object
    destinations, PUT's fresh maps, rollback, /load, adapters) keeps the association lists
    that stand for Go maps free of duplicate keys: after any such history neither the
    in-memory tree nor the last loaded configuration has an object with a key twice. This
    discharges the `uniq` hypothesis of `Addressable` / `id_resolves_partial`. -/
theorem unique_keys_preserved {env : Env} (ha : adaptUK env) {s : State} (h : ReachableUK env s) :
    uniqueKeys s.rawCfg = true ∧ ∀ j, s.rawCfgJSON = some j → uniqueKeys j = true := by
  have : UKS s := by
    induction h with
    | init => exact uks_init
    | step r hb _ ih => exact uk_serve ha ih hb
  exact ⟨this.tree, this.loaded⟩

/-- histories whose request bodies are in canonical form (keys strictly increasing) — the
    form the model gives every decoded body -/
inductive ReachableCN (env : Env) : State → Prop
  | init : ReachableCN env initState
  | step {s : State} (r : Req) : bodyCN r.body → ReachableCN env s → ReachableCN env (serve env r s).1

/-- **canonical form is preserved.** Every operation of the API keeps every object's keys in
    strictly increasing byte order (`insertSorted` for new keys, in-place replacement for
    existing ones, deletion): after any such history the in-memory tree and the last loaded
    configuration are canonical. -/
theorem canonical_form_preserved {env : Env} (ha : adaptCN env) {s : State} (h : ReachableCN env s) :
    canonical s.rawCfg = true ∧ ∀ j, s.rawCfgJSON = some j → canonical j = true := by
  have : CNS s := by
    induction h with
    | init => exact cns_init
    | step r hb _ ih => exact cn_serve ha ih hb
  exact ⟨this.tree, this.loaded⟩

/-- **the model's equality test is the code's.** `changeConfig` decides "unchanged" by
    `bytes.Equal(rawCfgJSON, json.Marshal(rawCfg["config"]))`; `json.Marshal` prints a Go map
    with its keys sorted, so the bytes are equal iff the two documents are equal *as nested
    maps* (`mapEq`: same keys, equal values, whatever the order members happen to be listed
    in). On canonical trees — which by `canonical_form_preserved` is all the model ever holds —
    that is structural equality, the `==` the model uses. -/
theorem same_config_test_is_map_equality {a b : Json} (ha : canonical a = true) (hb : canonical b = true) :
    mapEq a b = true ↔ a = b :=
  ⟨mapEq_eq a b ha hb, fun h => h ▸ mapEq_refl a ha⟩

/-! ### `caddy reload` (cmd/commandfuncs.go) -/

/-- **`caddy reload` is the /load request**: whenever the command gets as far as sending
    (file readable as JSON or adapted), the instance ends up exactly as after
    `POST /load` with that body, `Content-Type: application/json` and — iff `--force` —
    `Cache-Control: must-revalidate`; so everything proved about /load (unconditional
    `POST /config`, replaces the document, unchanged ⇒ not reloaded unless forced) is what the
    command does. -/
theorem cli_reload_is_the_load_request (env : Env) (file body : Body) (a : CliAdapter) (force addr : Bool) (s : State)
    (h : cliLoadConfig env file a = some body) (ha : cliAddressFound addr body = true) :
    (cliReload env file a force addr s).1 = (serve env ⟨.post, loadPath, body, [], force, .json⟩ s).1 ∧
    ((cliReload env file a force addr s).2 = .ok ↔ (serve env ⟨.post, loadPath, body, [], force, .json⟩ s).2 = .okWrite) := by
  unfold cliReload
  simp only [h, ha, Bool.not_true, Bool.false_eq_true, if_false]
  generalize serve env ⟨.post, loadPath, body, [], force, .json⟩ s = x
  obtain ⟨s', resp⟩ := x
  cases resp <;> simp

/-- **a `caddy reload` that does not exit 0 has changed nothing** -/
theorem cli_reload_failure_changes_nothing {env : Env} {s : State} (hs : Reachable env s) (file : Body) (a : CliAdapter)
    (force addr : Bool) (h : (cliReload env file a force addr s).2 ≠ .ok) : (cliReload env file a force addr s).1 = s := by
  unfold cliReload at h ⊢
  cases hl : cliLoadConfig env file a with
  | none => rfl
  | some body =>
    simp only [hl] at h ⊢
    by_cases haddr : cliAddressFound addr body = true
    case neg => simp [haddr]
    simp only [haddr, Bool.not_true, Bool.false_eq_true, if_false] at h ⊢
    -- /load answers okWrite or a failure, nothing else
    have hr : route loadPath = .load := by decide
    have hresp : (serve env ⟨.post, loadPath, body, [], force, .json⟩ s).2 = .okWrite ∨
        ∃ f, (serve env ⟨.post, loadPath, body, [], force, .json⟩ s).2 = .fail f := by
      unfold serve
      simp only [hr, handleLoad, adaptByContentType]
      generalize (change env .post (slash :: cfgKey) body [] force s).2 = c
      cases c <;> simp [loadResp, changeResp]
    apply serve_rejected (reachable_inv hs)
    rcases hresp with h1 | ⟨f, h1⟩
    · rw [h1] at h; simp at h
    · rw [h1]; rfl

/-! ### pulled configs (config loaders, caddy.go finishSettingUp) -/

/-- **a pulled config replaces the document or changes nothing**, and keeps the invariant: it
    goes through the same `changeConfig` as a request — accepted (or identical to what runs), the
    document is exactly the pulled one; refused by the decoder, the indexer or the apps, every
    global is as before. Either way the state is one a history of requests reaches. -/
theorem pulled_config_replaces_document_or_changes_nothing {env : Env} {s : State} (h : Reachable env s) (j : Json)
    (hna : ∀ xs, cfgOf s.rawCfg ≠ .arr xs) :
    (((pulledConfig env (.val j) s).2 = .ok ∨ (pulledConfig env (.val j) s).2 = .same) ∧
        cfgOf (pulledConfig env (.val j) s).1.rawCfg = j) ∨
    (pulledConfig env (.val j) s).1 = s := by
  have hi := reachable_inv h
  unfold pulledConfig
  by_cases hacc : (change env .post (slash :: cfgKey) (.val j) [] false s).2 = .ok ∨
      (change env .post (slash :: cfgKey) (.val j) [] false s).2 = .same
  · left
    refine ⟨hacc, ?_⟩
    have hch : change env .post (slash :: cfgKey) (.val j) [] false s = mutate env .post (slash :: cfgKey) (.val j) false s := by
      simp [change]
    rw [hch] at hacc ⊢
    obtain ⟨hroot, _⟩ := mutate_accepted hacc
    rw [hroot, access_post_cfg hi.shape hna]
    simp [cfgOf, lookup, encodeOf]
  · right
    exact change_rejected hi underConfig_cfg (fun h => hacc (Or.inl h)) (fun h => hacc (Or.inr h))

/-- **after a pulled config the id index is that of the document in place** (and the other
    globals agree with it too): `indexConfigObjects` runs for a pulled config as for a pushed
    one, so /id/ never resolves through the index of the replaced document. -/
theorem pulled_config_keeps_index_in_step {env : Env} {s : State} (h : Reachable env s) (config : Body) :
    cfgOf (pulledConfig env config s).1.rawCfg = encodeOf (pulledConfig env config s).1.rawCfgJSON ∧
    (∀ j, (pulledConfig env config s).1.rawCfgJSON = some j →
      indexJ j (slash :: cfgKey) = some (pulledConfig env config s).1.index) := by
  have hi : Inv (pulledConfig env config s).1 := change_inv (reachable_inv h) underConfig_cfg
  refine ⟨hi.doc, ?_⟩
  intro j hj
  have := hi.idx
  rw [hj] at this
  exact this

/-! ### an object tagged with @id is reachable under /id/ as that same object -/

/-- the tagged object at position `segs` of the loaded document `j`, indexed under `t`, can
    be expressed by a URL and reached by the traversal.  Every field but the two
    representation invariants excludes a proved counter-example or an inherent limit:
    `segsOk` (a key that is "", "." or contains '/': `id_resolves_full_fails`), `notDots` (a trailing
    "..." is the append marker), `idOk` (the id has
    to fit one URL path segment), `unambiguous` (two objects with the same id: Go's map order
    decides). -/
structure Addressable (j : Json) (segs : List Bytes) (t : Bytes) : Prop where
  uniq : uniqueKeys j = true
  short : shortArrays j = true
  segsOk : okSegs segs
  notDots : segs.getLast? ≠ some dots
  idOk : okSeg t
  unambiguous : (taggedJ j).filter (fun e => e.2 = t) = [(segs, t)]

/-- the expanded path of a tagged position: "/config/" for the top-level object (`segs = []`,
    served there since /repo's fix, see `id_on_root_old_code_fails`), "/config/k1/…/kn" below -/
def idPath (segs : List Bytes) : Bytes := if segs = [] then cfgPrefix else renderPath (cfgKey :: segs)

/-- **@id resolves.** After any history, for every addressable tagged object of the running
    configuration — the top-level object included: `GET /id/<id>` is answered 200 with exactly
    that object — the value at its position in the document, carrying that `@id` — and the
    ETag names its expanded path. -/
theorem id_resolves_partial {env : Env} {s : State} (h : Reachable env s)
    {j : Json} (hj : s.rawCfgJSON = some j) {segs : List Bytes} {t : Bytes} (ha : Addressable j segs t) :
    ∃ kvs v, serve env (readReq (idPrefix ++ t)) s = (s, .okGet (some (.obj kvs)) (idPath segs)) ∧
      sget segs j = some (.obj kvs) ∧ lookup idKey kvs = some v ∧ idText v = some t := by
  have hi := reachable_inv h
  -- the "config" key is there: without it the document is null and nothing is tagged
  have hkey : hasCfgKey s.rawCfg = true := by
    cases hk : hasCfgKey s.rawCfg with
    | true => rfl
    | false =>
      exfalso
      have h0 := root_nokey hi.shape hk
      have h2 := hi.doc
      rw [hj, h0] at h2
      simp [cfgOf, lookup, encodeOf] at h2
      have := ha.unambiguous
      rw [← h2] at this
      simp [taggedJ] at this
  -- the tree
  have hroot : s.rawCfg = .obj [(cfgKey, j)] := by
    have h1 := cfgOf_root_eq hi.shape hkey
    have h2 := hi.doc
    rw [hj] at h2
    simp only [encodeOf] at h2
    rw [h2] at h1; exact h1
  -- the index
  have hidx : s.index = (taggedJ j).map (entryOf (slash :: cfgKey)) := by
    have := hi.idx
    rw [hj] at this
    exact indexJ_tagged j _ _ this
  have hokc : okSegs (cfgKey :: segs) := by
    intro x hx; simp at hx; rcases hx with hx | hx
    · rw [hx]; exact okSeg_cfgKey
    · exact ha.segsOk x hx
  have hbase : (slash :: cfgKey : Bytes) = renderPath [cfgKey] := by simp [renderPath]
  have hfold : segs.foldl pathJoin (slash :: cfgKey) = renderPath (cfgKey :: segs) := by
    rw [hbase, foldl_pathJoin_ok (base := [cfgKey]) (by intro x hx; simp at hx; rw [hx]; exact okSeg_cfgKey) (by simp) ha.segsOk]
    simp
  have hcand : candidates t s.index = [renderPath (cfgKey :: segs)] := by
    rw [hidx, candidates_map, ha.unambiguous]
    simp [hfold]
  -- the tagged object
  have hmem : (segs, t) ∈ taggedJ j := by
    have : (segs, t) ∈ (taggedJ j).filter (fun e => e.2 = t) := by rw [ha.unambiguous]; simp
    exact (List.mem_filter.1 this).1
  obtain ⟨kvs, v, hs1, hs2, hs3⟩ := taggedJ_entry j ha.uniq ha.short (segs, t) hmem
  refine ⟨kvs, v, ?_, hs1, hs2, hs3⟩
  -- the request
  have hrid : route (idPrefix ++ t) = .id := by
    have := route_render_id ha.idOk
    have hr : renderPath [idSeg, t] = idPrefix ++ t := by simp [renderPath, idPrefix]
    rw [hr] at this; exact this
  have hto := handleConfigID_unique (idx := s.index) ha.idOk hcand hokc (by simp)
  cases hsegs : segs with
  | nil =>
    -- the top-level object: "/config" is rewritten to "/config/"
    subst hsegs
    have hj' : j = .obj kvs := by simpa [sget] using hs1
    have hrcfg : route cfgPrefix = .config := by decide
    have hget : access .get cfgPrefix .empty (.obj [(cfgKey, j)]) = (.obj [(cfgKey, j)], .ok (some (.obj kvs))) := by
      have hp : pathParts cfgPrefix = ([cfgKey], false) := by decide
      apply get_returns_every_value _ _ _ (by decide)
      · show (pathParts cfgPrefix).1 ≠ []
        rw [hp]; simp
      · show sget (pathParts cfgPrefix).1 _ = _
        rw [hp]; simp [sget_obj_cons, lookup, sget, hj']
    rw [rootSlash_root] at hto
    unfold serve
    simp only [readReq, hrid, hto, hrcfg, idPath, if_true]
    rw [handleConfig_get _ _ _ _ rfl, hroot, hget]
  | cons s0 rest =>
    rw [hsegs] at hokc hto hs1 hfold
    have hnd : (cfgKey :: s0 :: rest).getLast? ≠ some dots := by
      have := ha.notDots
      rw [hsegs] at this
      simpa [List.getLast?_cons_cons] using this
    have hrcfg : route (renderPath (cfgKey :: s0 :: rest)) = .config := route_render_config hokc
    have hparts : pathParts (renderPath (cfgKey :: s0 :: rest)) = (cfgKey :: s0 :: rest, false) :=
      pathParts_render hokc (by simp) hnd
    have hget : access .get (renderPath (cfgKey :: s0 :: rest)) .empty (.obj [(cfgKey, j)]) =
        (.obj [(cfgKey, j)], .ok (some (.obj kvs))) := by
      apply get_returns_every_value _ _ _ (trimSlash_render_ne hokc (by simp))
      · show (pathParts (renderPath (cfgKey :: s0 :: rest))).1 ≠ []
        rw [hparts]; simp
      · show sget (pathParts (renderPath (cfgKey :: s0 :: rest))).1 _ = _
        rw [hparts]; simp only
        rw [sget_obj_cons]; simp [lookup]; exact hs1
    rw [rootSlash_below] at hto
    unfold serve
    simp only [readReq, hrid, hto, hrcfg, idPath]
    rw [handleConfig_get _ _ _ _ rfl, hroot, hget]
    simp

/-- **/id/<id>/<rest> is <expanded path>/<rest>, for every kind of request.** After any
    history, for a uniquely tagged object at an addressable position `segs` and any addressable
    rest of the path: a request to `/id/<id>/<rest>` — whatever its method, body, If-Match,
    Cache-Control and Content-Type — is answered exactly like the same request to
    `/config/<segs>/<rest>` and leaves exactly the same state. (With `rest = []` and GET this
    is `id_resolves_partial`; here the object may also be written, deleted or appended to
    through its id.) -/
theorem id_path_is_expanded_path {env : Env} {s : State} (h : Reachable env s) {j : Json}
    (hj : s.rawCfgJSON = some j) {segs rest : List Bytes} {t : Bytes}
    (hsegs : okSegs segs) (hid : okSegs (idSeg :: t :: rest)) (hne : segs ++ rest ≠ [])
    (huniq : (taggedJ j).filter (fun e => e.2 = t) = [(segs, t)])
    (r : Req) (hp : r.path = renderPath (idSeg :: t :: rest)) :
    serve env r s = serve env { r with path := renderPath (cfgKey :: (segs ++ rest)) } s := by
  have hi := reachable_inv h
  have hidx : s.index = (taggedJ j).map (entryOf (slash :: cfgKey)) := by
    have := hi.idx
    rw [hj] at this
    exact indexJ_tagged j _ _ this
  have hokc : okSegs (cfgKey :: segs) := by
    intro x hx; simp at hx; rcases hx with hx | hx
    · rw [hx]; exact okSeg_cfgKey
    · exact hsegs x hx
  have hbase : (slash :: cfgKey : Bytes) = renderPath [cfgKey] := by simp [renderPath]
  have hfold : segs.foldl pathJoin (slash :: cfgKey) = renderPath (cfgKey :: segs) := by
    rw [hbase, foldl_pathJoin_ok (base := [cfgKey]) (by intro x hx; simp at hx; rw [hx]; exact okSeg_cfgKey) (by simp) hsegs]
    simp
  have hcand : candidates t s.index = [renderPath (cfgKey :: segs)] := by
    rw [hidx, candidates_map, huniq]
    simp [hfold]
  have hrest : okSegs rest := fun x hx => hid x (by simp [hx])
  have hto := handleConfigID_rest (idx := s.index) hid hcand hokc (by simp)
  obtain ⟨s0, tl, hst⟩ : ∃ s0 tl, segs ++ rest = s0 :: tl := by
    cases hs : segs ++ rest with
    | nil => exact absurd hs hne
    | cons a b => exact ⟨a, b, rfl⟩
  have hall : okSegs (cfgKey :: s0 :: tl) := by
    rw [← hst]
    intro x hx; simp at hx
    rcases hx with hx | hx | hx
    · rw [hx]; exact okSeg_cfgKey
    · exact hsegs x hx
    · exact hrest x hx
  have hpath : renderPath (cfgKey :: segs ++ rest) = renderPath (cfgKey :: s0 :: tl) := by
    simp only [List.cons_append, hst]
  rw [hpath, rootSlash_below] at hto
  have hrcfg := route_render_config hall
  have hrid := route_render_id_rest hid
  have hlhs : serve env r s = handleConfig env r (renderPath (cfgKey :: s0 :: tl)) s := by
    unfold serve
    simp only [hp, hrid, hto, hrcfg]
  have hrhs : serve env { r with path := renderPath (cfgKey :: (segs ++ rest)) } s =
      handleConfig env r (renderPath (cfgKey :: s0 :: tl)) s := by
    unfold serve
    simp only [hst, hrcfg]
    exact handleConfig_path_irrelevant env r _ _ s
  rw [hlhs, hrhs]

/-! ### `@id` never changes what the configuration means -/

/-- what the run step decides and hands to the apps depends on the document only through
    `stripIds`: two documents that differ only in `@id` members are accepted or rejected
    alike and start the apps with the same tree, which contains no `@id` at all -/
theorem ids_never_change_meaning (env : Env) (s : State) (root₁ root₂ : Json)
    (hs : stripIds (cfgOf root₁) = stripIds (cfgOf root₂))
    (h₁ : (commit env true s root₁).2 = .ok) (h₂ : (commit env true s root₂).2 ≠ .load) (h₃ : (commit env true s root₂).2 ≠ .index) :
    (commit env true s root₂).2 = .ok ∧
    (commit env true s root₁).1.running = (commit env true s root₂).1.running ∧
    ∃ d, (commit env true s root₁).1.running = some d ∧ noIds d = true := by
  have hc : ∀ root, commit env true s root =
      match indexJ (cfgOf root) (slash :: cfgKey) with
      | none => (restore s root, .index)
      | some idx =>
        if stripBreaks (cfgOf root) || !env.accepts (stripIds (cfgOf root)) then (restore s root, .load)
        else ({ rawCfg := root, rawCfgJSON := some (cfgOf root), index := idx,
                running := some (stripIds (cfgOf root)), loads := s.loads + 1 }, .ok) := by
    intro root; unfold commit; simp only [Bool.not_true, Bool.false_and, Bool.false_eq_true, if_false]
    cases indexJ (cfgOf root) (slash :: cfgKey) <;> rfl
  rw [hc] at h₁ h₂ h₃ ⊢
  rw [hc]
  cases hi₁ : indexJ (cfgOf root₁) (slash :: cfgKey) with
  | none => simp [hi₁] at h₁
  | some idx₁ =>
    cases hi₂ : indexJ (cfgOf root₂) (slash :: cfgKey) with
    | none => simp [hi₂] at h₃
    | some idx₂ =>
      simp only [hi₁, hi₂] at h₁ h₂ h₃ ⊢
      by_cases hb₁ : (stripBreaks (cfgOf root₁) || !env.accepts (stripIds (cfgOf root₁))) = true
      · simp [hb₁] at h₁
      · by_cases hb₂ : (stripBreaks (cfgOf root₂) || !env.accepts (stripIds (cfgOf root₂))) = true
        · simp [hb₂] at h₂
        · simp only [hb₁, hb₂, if_false]
          exact ⟨rfl, by simp [hs], _, rfl, stripIds_noIds _⟩

/-! ### non-vacuity (byte strings spelled out so that the kernel can evaluate them) -/

def kApps : Bytes := [97, 112, 112, 115]            -- "apps"
def kC12 : Bytes := [99, 49, 50]               -- "c12"
def kA : Bytes := [97]
def kX : Bytes := [120]
def pRoot : Bytes := [47, 99, 111, 110, 102, 105, 103, 47]    -- "/config/"
def pApps : Bytes := [47, 99, 111, 110, 102, 105, 103, 47, 97, 112, 112, 115]   -- "/config/apps"
def pDeep : Bytes := [47, 99, 111, 110, 102, 105, 103, 47, 97, 112, 112, 115, 47, 99, 49, 50, 47, 110, 47, 109, 47, 107]   -- "/config/apps/c12/n/m/k"
def pId : Bytes := [47, 99, 111, 110, 102, 105, 103, 47, 97, 112, 112, 115, 47, 99, 49, 50, 47, 64, 105, 100]     -- "/config/apps/c12/@id"
def pC12 : Bytes := [47, 99, 111, 110, 102, 105, 103, 47, 97, 112, 112, 115, 47, 99, 49, 50]    -- "/config/apps/c12"

/-- `{"apps":{"c12":{"@id":"x","a":[1]}}}` -/
def exDoc : Json := .obj [(kApps, .obj [(kC12, .obj [(idKey, .str kX), (kA, .arr [.num [49]])])])]
def exEnv : Env := ⟨fun _ => [], fun _ => true, fun _ => none⟩
def exReq (m : HMethod) (p : Bytes) (b : Body) : Req := ⟨m, p, b, [], false, .json⟩
def exLoaded : State := (serve exEnv (exReq .post pRoot (.val exDoc)) initState).1

example : Reachable exEnv exLoaded := .step _ .init
-- the loaded state really carries the document, an index entry and a started configuration
example : exLoaded.rawCfgJSON = some exDoc := by decide
example : exLoaded.index = [(kX, pC12)] := by decide
example : exLoaded.loads = 1 := by decide
-- error_pure: PUT on an existing key fails (409) …
example : (access .put pApps (.val .null) exLoaded.rawCfg).2 = .err .keyExists := by decide
-- … and a PUT that has to create two maps succeeds
example : (access .put pDeep (.val .null) exLoaded.rawCfg).2 = .ok none := by decide
-- rejected_changes_nothing: rejected writes on a loaded state
example : (serve exEnv (exReq .put pId (.val (.bool true))) exLoaded).2 = .fail (.access .keyExists) := by decide
example : (serve exEnv (exReq .patch pId (.val (.bool true))) exLoaded).2 = .fail .index := by decide
-- ids_never_change_meaning: a document that differs from its stripped version, accepted
example : stripIds exDoc ≠ exDoc := by decide
example : (commit exEnv true initState (.obj [(cfgKey, exDoc)])).2 = .ok := by decide

-- get_is_lookup / get_returns_every_value / write effects: a path into the loaded document
def pA0 : Bytes := [47, 99, 111, 110, 102, 105, 103, 47, 97, 112, 112, 115, 47, 99, 49, 50, 47, 97, 47, 48]   -- "/config/apps/c12/a/0"
def pA : Bytes := [47, 99, 111, 110, 102, 105, 103, 47, 97, 112, 112, 115, 47, 99, 49, 50, 47, 97]     -- "/config/apps/c12/a"
example : partsOf pA0 ≠ [] := by decide
example : sget (partsOf pA0) exLoaded.rawCfg = some (.num [49]) := by decide
example : (access .get pA0 .empty exLoaded.rawCfg).2 = .ok (some (.num [49])) := by decide
example : (access .put pA0 (.val .null) exLoaded.rawCfg).2 = .ok none := by decide
example : (access .patch pA0 (.val .null) exLoaded.rawCfg).2 = .ok none := by decide
example : (access .post pA (.val .null) exLoaded.rawCfg).2 = .ok none := by decide
example : (access .delete pA0 .empty exLoaded.rawCfg).2 = .ok none := by decide
-- write_frame: the "@id" member of c12 is apart from the container `a` of /config/apps/c12/a/0
example : apart [cfgKey, kApps, kC12, idKey] (partsOf pA0).dropLast exLoaded.rawCfg = true := by decide

-- If-Match: a header issued for the current value passes, one for another value is refused
def hashEx : Option Json → Bytes
  | some (.num t) => 104 :: t
  | _ => [104]
def casEnv : Env := ⟨hashEx, fun _ => true, fun _ => none⟩
def pN : Bytes := [47, 99, 111, 110, 102, 105, 103, 47, 97, 112, 112, 115, 47, 99, 49, 50, 47, 110]     -- "/config/apps/c12/n"
/-- `{"apps":{"c12":{"n":1}}}` loaded -/
def casLoaded : State :=
  (serve casEnv (exReq .post pRoot (.val (.obj [(kApps, .obj [(kC12, .obj [([110], .num [49])])])]))) initState).1
example : (change casEnv .patch pN (.val (.num [49, 49])) (mkEtag pN (hashEx (some (.num [49])))) false casLoaded).2 = .ok := by decide
example : (change casEnv .patch pN (.val (.num [49, 49])) (mkEtag pN (hashEx (some (.num [50])))) false casLoaded).2 = .precondition := by decide

-- cas_no_lost_update: a unary counter ("1", "11", "111", …), each write prepends a digit
def incr (_ : Nat) : Option Json → Json
  | some (.num t) => .num (49 :: t)
  | _ => .num [49]
def unary (o : Option Json) : Prop := ∃ t, o = some (.num t) ∧ ∀ c ∈ t, c = 49
def sizeEx : Json → Nat
  | .num t => t.length
  | _ => 0

example : CasHyp casEnv pN incr unary where
  inj := by
    rintro a b ⟨t, rfl, _⟩ ⟨u, rfl, _⟩ h
    simp [casEnv, hashEx] at h; rw [h]
  closed := by
    rintro c v ⟨t, h, ht⟩
    simp at h; subst h
    exact ⟨49 :: t, rfl, by intro c hc; simp at hc; rcases hc with rfl | hc; rfl; exact ht c hc⟩
  hne := by rintro a ⟨t, rfl, _⟩; simp [casEnv, hashEx]
  hns := by
    rintro a ⟨t, rfl, ht⟩ c hc
    simp [casEnv, hashEx] at hc
    rcases hc with rfl | hc
    · decide
    · rw [ht c hc]; decide
  route := by decide
  pns := by unfold noSpace; decide

example : Reachable casEnv casLoaded := .step _ .init
example : hasCfgKey casLoaded.rawCfg = true := by decide
example : (access .get pN .empty casLoaded.rawCfg).2 = .ok (some (.num [49])) := by decide
example : ∀ c v, sizeEx (incr c (some v)) = sizeEx v + 1 := by
  intro c v; cases v <;> simp [incr, sizeEx]
-- two clients; client 1 reads, client 0 reads and writes, client 1's stale write is refused,
-- client 1 reads again and writes: two acknowledged writes, counter "1" -> "111"
example : (runSched casEnv pN incr [1, 0, 0, 1, 1, 1] ⟨casLoaded, fun _ => none, []⟩).log
    = [(0, .num [49, 49]), (1, .num [49, 49, 49])] := by decide
example : (access .get pN .empty (runSched casEnv pN incr [1, 0, 0, 1, 1, 1] ⟨casLoaded, fun _ => none, []⟩).s.rawCfg).2
    = .ok (some (.num [49, 49, 49])) := by decide

-- id_resolves_partial: the tagged object of the loaded example document is addressable …
example : Addressable exDoc [kApps, kC12] kX where
  uniq := by decide
  short := by decide
  segsOk := by unfold okSegs okSeg; decide
  notDots := by decide
  idOk := by unfold okSeg; decide
  unambiguous := by decide
-- … and GET /id/x returns it
example : (serve exEnv (readReq (idPrefix ++ kX)) exLoaded).2 =
    .okGet (some (.obj [(idKey, .str kX), (kA, .arr [.num [49]])])) pC12 := by decide

-- /load and /adapt
def wrapEx : Body → Option Json
  | .val j => some (.obj [(kApps, .obj [(kC12, j)])])
  | _ => none
def loadEnv : Env := ⟨fun _ => [], fun _ => true, wrapEx⟩
def loadReq (m : HMethod) (p : Bytes) (b : Body) (ct : CT) : Req := ⟨m, p, b, [34], false, ct⟩   -- carries a malformed If-Match
-- a JSON /load on the loaded example state is accepted although its If-Match header is garbage,
example : (serve loadEnv (loadReq .post loadPath (.val .null) .json) exLoaded).2 = .okWrite := by decide
example : cfgOf (serve loadEnv (loadReq .post loadPath (.val .null) .json) exLoaded).1.rawCfg = .null := by decide
-- the same request to /config/ is refused (400, malformed If-Match)
example : (serve loadEnv (loadReq .post pRoot (.val .null) .json) exLoaded).2 = .fail .ifMatchQuote := by decide
-- load_replaces_document with an adapted body: hypotheses and conclusion on a concrete request
example : adaptByContentType loadEnv .adapter (.val (.num [49])) = .body (.val (.obj [(kApps, .obj [(kC12, .num [49])])])) := by decide
example : ∀ xs, cfgOf exLoaded.rawCfg ≠ .arr xs := by
  have : cfgOf exLoaded.rawCfg = exDoc := by decide
  intro xs; rw [this]; simp [exDoc]
example : (serve loadEnv (loadReq .post loadPath (.val (.num [49])) .adapter) exLoaded).2 = .okWrite := by decide
-- Content-Type dispatch: unknown adapter, no slash, unparsable, GET
example : (serve loadEnv (loadReq .post loadPath (.val .null) .plain) exLoaded).2 = .fail .adapterUnknown := by decide
example : (serve loadEnv (loadReq .post loadPath (.val .null) .jsonx) exLoaded).2 = .fail .adapterUnknown := by decide
example : (serve loadEnv (loadReq .post loadPath (.val .null) .noSlash) exLoaded).2 = .fail .ctMalformed := by decide
example : (serve loadEnv (loadReq .get loadPath .empty .none) exLoaded).2 = .fail .method := by decide
-- a rejected /load answers 400 "loading config: …" and changes nothing
example : (serve loadEnv (loadReq .post loadPath (.val (.obj [(idKey, .bool true)])) .none) exLoaded)
    = (exLoaded, .fail (.viaLoad .index)) := by decide
-- /adapt
example : (serve loadEnv (loadReq .post adaptPath (.val (.num [49])) .adapter) exLoaded)
    = (exLoaded, .okAdapt (.obj [(kApps, .obj [(kC12, .num [49])])])) := by decide

-- unique_keys_preserved: the example histories are of that kind, and the wrapping adapter qualifies
example : ReachableUK exEnv exLoaded := .step _ (by show uniqueKeys exDoc = true; decide) .init
example : adaptUK loadEnv := by
  intro b j hb h
  cases b with
  | val x =>
    simp [loadEnv, wrapEx] at h; subst h
    simp only [uniqueKeys, uniqueKeysO, lookup]
    have : uniqueKeys x = true := hb
    simp [this, kApps, kC12]
  | empty => simp [loadEnv, wrapEx] at h
  | bad => simp [loadEnv, wrapEx] at h

-- id_path_is_expanded_path: PATCH /id/x/a/0 on the loaded example document is PATCH /config/apps/c12/a/0
def pIdXA0 : Bytes := [47, 105, 100, 47, 120, 47, 97, 47, 48]     -- "/id/x/a/0"
example : pIdXA0 = renderPath (idSeg :: kX :: [kA, [48]]) := by decide
example : (taggedJ exDoc).filter (fun e => e.2 = kX) = [([kApps, kC12], kX)] := by decide
example : serve exEnv (exReq .patch pIdXA0 (.val .null)) exLoaded = serve exEnv (exReq .patch pA0 (.val .null)) exLoaded := by decide
example : (serve exEnv (exReq .patch pIdXA0 (.val .null)) exLoaded).2 = .okWrite := by decide

-- unchanged / forced: PATCHing the loaded document with itself
example : (serve exEnv (exReq .patch pRoot (.val exDoc)) exLoaded) = (exLoaded, .okWrite) := by decide
example : (serve exEnv ⟨.patch, pRoot, .val exDoc, [], true, .json⟩ exLoaded).1.loads = 2 := by decide

-- interleavings of lock regions: `{"apps":{"c12":{"a":[{"@id":"x","v":1}]}}}`; thread 0 PATCHes /id/x,
-- thread 1 inserts an element in front of it between thread 0's two regions
def xObj : Json := .obj [(idKey, .str kX), ([118], .num [49])]
def yObj : Json := .obj [(idKey, .str [121])]
def raceDoc : Json := .obj [(kApps, .obj [(kC12, .obj [(kA, .arr [xObj])])])]
def hashRace : Option Json → Bytes := fun o => if o = some xObj then [120] else [111]
def raceEnv : Env := ⟨hashRace, fun _ => true, fun _ => none⟩
def raceLoaded : State := (serve raceEnv (exReq .post pRoot (.val raceDoc)) initState).1
def pIdX : Bytes := [47, 105, 100, 47, 120]                       -- "/id/x"
def patchX (ifm : Bytes) : Req := ⟨.patch, pIdX, .val (.obj [([118], .num [50])]), ifm, false, .json⟩
def insertY : Req := ⟨.put, pA0, .val yObj, [], false, .json⟩
def raceSched (ifm : Bytes) : List (Nat × Req) := [(0, patchX ifm), (1, insertY), (0, patchX ifm)]
/-- **/id/ resolution is not atomic with the write** (an observation the region model makes
    precise, not a clause of the property: its concurrency clause is about conditional
    writers). An UNCONDITIONAL write through /id/ can hit a neighbour: the id is resolved to
    `/config/apps/c12/a/0` in the first region, another thread inserts an element in front,
    and the second region patches index 0 — the inserted object; the object tagged "x" is
    untouched. The serial history it amounts to says so: `PATCH /config/apps/c12/a/0` after the
    insert. -/
theorem id_resolution_is_not_atomic_with_the_write :
    cfgOf (regionRun raceEnv (raceSched []) (RSys.start raceLoaded)).s.rawCfg =
      .obj [(kApps, .obj [(kC12, .obj [(kA, .arr [.obj [([118], .num [50])], xObj])])])] ∧
    (regionRun raceEnv (raceSched []) (RSys.start raceLoaded)).hist = [insertY, { patchX [] with path := pA0 }] := by
  decide

/-- … and If-Match protects against exactly that: the same schedule with the ETag of an earlier
    `GET /id/x` ("/config/apps/c12/a/0 <hash of the x object>") is refused with 412 and the
    document holds the inserted object and the untouched x. -/
theorem id_race_is_refused_with_if_match :
    ((regionRun raceEnv (raceSched (mkEtag pA0 (hashRace (some xObj)))) (RSys.start raceLoaded)).done.map (·.2.2))
      = [.okWrite, .fail .precondition] ∧
    cfgOf (regionRun raceEnv (raceSched (mkEtag pA0 (hashRace (some xObj)))) (RSys.start raceLoaded)).s.rawCfg =
      .obj [(kApps, .obj [(kC12, .obj [(kA, .arr [yObj, xObj])])])] := by
  decide

-- back to back the same request patches the tagged object
example : cfgOf (regionRun raceEnv [(0, patchX []), (0, patchX [])] (RSys.start raceLoaded)).s.rawCfg =
    .obj [(kApps, .obj [(kC12, .obj [(kA, .arr [.obj [([118], .num [50])]])])])] := by decide

-- canonical form / map equality: the same object with its members listed in two orders is `mapEq`
-- but not `=`; only one of the two is canonical
example : mapEq (.obj [([97], .null), ([98], .bool true)]) (.obj [([98], .bool true), ([97], .null)]) = true := by decide
example : canonical (.obj [([97], .null), ([98], .bool true)]) = true ∧ canonical (.obj [([98], .bool true), ([97], .null)]) = false := by decide
example : canonical exDoc = true := by decide
example : ReachableCN exEnv exLoaded := .step _ (by show canonical exDoc = true; decide) .init

-- every_answer_…: in the race above, thread 1's insert was answered in the state after 0 requests of the
-- serial history, thread 0's patch was resolved there too but handled after 1
example : Explained raceEnv raceLoaded [insertY, { patchX [] with path := pA0 }] (1, insertY, .okWrite) :=
  Or.inl ⟨0, by decide, by decide⟩
example : Explained raceEnv raceLoaded [insertY, { patchX [] with path := pA0 }] (0, patchX [], .okWrite) :=
  Or.inr ⟨0, 1, by decide, by decide, by decide⟩

-- caddy reload: a JSON file replaces the document; the same file again is not reloaded unless --force
def cliState : State := (cliReload loadEnv (.val exDoc) .none false false initState).1
example : (cliReload loadEnv (.val exDoc) .none false false initState).2 = .ok ∧ cliState.loads = 1 := by decide
example : (cliReload loadEnv (.val exDoc) .none false false cliState).1.loads = 1 := by decide
example : (cliReload loadEnv (.val exDoc) .none true false cliState).1.loads = 2 := by decide
example : (cliReload loadEnv .bad .none false false cliState) = (cliState, .failedBeforeSend) := by decide
-- a file holding a JSON array: without --address the command cannot even look for admin.listen; with it, it is sent (and this world's apps accept anything)
example : (cliReload loadEnv (.val (.arr [])) .none false false cliState) = (cliState, .failedBeforeSend) := by decide
example : (cliReload loadEnv (.val (.arr [])) .none false true cliState).2 = .ok := by decide
example : (cliReload loadEnv (.val (.num [49])) .registered false false cliState).2 = .ok := by decide
example : (cliReload loadEnv (.val (.obj [(idKey, .bool true)])) .none false false cliState) = (cliState, .refused (.viaLoad .index)) := by decide

-- pulled configs: accepted → the document; rejected by the indexer → nothing changes
example : cfgOf (pulledConfig exEnv (.val .null) exLoaded).1.rawCfg = .null := by decide
example : pulledConfig exEnv (.val (.obj [(idKey, .bool true)])) exLoaded = (exLoaded, .index) := by decide

/-! ### request targets as they arrive on a connection (Wire.lean): which document path a
    request addresses -/

/-- **the document path a request addresses is the decoded path**: whatever the spelling of the
    request target, once the mux (which looks at the escaped path) hands it to the config handler,
    what runs is `handleConfig` on `URL.Path` as net/url decoded it -/
theorem wire_request_addresses_decoded_path (env : Env) (r : Req) (s : State) {t p ep : Bytes}
    (hp : parseTarget t = some (p, ep)) (hr : wireRoute ep = .config) :
    wireServe env r t s = ((handleConfig env r p s).1, .served (handleConfig env r p s).2) := by
  simp [wireServe, hp, hr]

/-- two spellings of the same decoded path that both reach the config handler are the same request -/
theorem wire_spelling_does_not_matter (env : Env) (r : Req) (s : State) {t₁ t₂ p e₁ e₂ : Bytes}
    (h₁ : parseTarget t₁ = some (p, e₁)) (h₂ : parseTarget t₂ = some (p, e₂))
    (r₁ : wireRoute e₁ = .config) (r₂ : wireRoute e₂ = .config) :
    wireServe env r t₁ s = wireServe env r t₂ s := by
  rw [wire_request_addresses_decoded_path env r s h₁ r₁, wire_request_addresses_decoded_path env r s h₂ r₂]

/-- every byte string has a spelling: net/url's `escape` is undone by its `unescape`, and
    `EscapedPath()` of the parsed URL is that spelling again (what the mux routes on) -/
theorem every_path_has_a_spelling (p : Bytes) :
    unescapePath (escapePath p) = some p ∧ escapedPath (escapePath p) p = escapePath p :=
  ⟨unescape_escape_eq p, by simp [escapedPath]⟩

def WireResp.rejected : WireResp → Bool
  | .badRequest => true
  | .served r => r.rejected

/-- **a rejected request changes nothing — stated at the connection**: refused by net/http (400),
    redirected or not routed by the mux, or rejected by a handler. `hcfg`: the decoded path of a
    target routed to the config handler starts with the `config` key (the mux matched the unescaped
    first segment against it) — checked on every case by the correspondence, decided in the examples -/
theorem wire_rejected_changes_nothing {env : Env} {s : State} (h : Reachable env s) (r : Req) (t : Bytes)
    (hcfg : ∀ p ep, parseTarget t = some (p, ep) → wireRoute ep = .config → underConfig p)
    (hrej : (wireServe env r t s).2.rejected = true) : (wireServe env r t s).1 = s := by
  have hi := reachable_inv h
  unfold wireServe at hrej ⊢
  split
  · rfl
  · next p ep hp =>
    simp only [hp] at hrej
    split
    · rfl
    · rfl
    · next hr =>
      simp only [hr] at hrej
      exact handleConfig_rejected hi (hcfg p ep hp hr) hrej
    · next hr =>
      simp only [hr] at hrej
      exact handleLoad_rejected hi hrej
    · exact handleAdapt_pure env r s
    · next hr =>
      simp only [hr] at hrej
      split
      · rfl
      · rfl
      · next q hq =>
        simp only [hq] at hrej
        split
        · next hr2 =>
          simp only [hr2] at hrej
          exact handleConfig_rejected hi (underConfig_of_prefix (route_config hr2)) hrej
        · rfl
        · rfl

/-! ### forced overlap (the ovl op): a writer held inside `changeConfig` while another writer and
    a reader wait on `rawCfgMu` -/

/-- **every overlapped history is one of the serial orders.** Writer `a` holds the write lock;
    writer `b` and reader `g` (requests with one critical section each) wait. Whichever of the two
    the lock admits next, the final state is that of the serial history `a; b`, `a` and `b` get the
    answers they get in that history, and the reader gets the value as it is after `a` or after
    `a; b` — never a state in between (e.g. of `a` before its rollback). -/
theorem overlapped_history_is_a_serial_order (env : Env) (s : State) (a b g : Req)
    (ha : route a.path ≠ .id) (hb : route b.path ≠ .id) (hg : route g.path ≠ .id) (hm : g.method = .get) :
    ((regionRun env [(0, a), (1, b), (2, g)] (RSys.start s)).s = serial env [a, b] s ∧
     (regionRun env [(0, a), (1, b), (2, g)] (RSys.start s)).done =
       [(0, a, (serve env a s).2), (1, b, (serve env b (serve env a s).1).2), (2, g, (serve env g (serial env [a, b] s)).2)]) ∧
    ((regionRun env [(0, a), (2, g), (1, b)] (RSys.start s)).s = serial env [a, b] s ∧
     (regionRun env [(0, a), (2, g), (1, b)] (RSys.start s)).done =
       [(0, a, (serve env a s).2), (2, g, (serve env g (serve env a s).1).2), (1, b, (serve env b (serve env a s).1).2)]) := by
  have hr : ∀ t, (serve env g t).1 = t := fun t => read_request_changes_nothing env g t (Or.inl hm)
  simp [regionRun, regionStep, RSys.start, serial, ha, hb, hg, hr]

-- overlapped_history_…: a PUT held while a DELETE and a GET of the same value wait
example : route (wReq .put pSlash (.val .null)).path ≠ .id ∧ route (wReq .delete pSlash .empty).path ≠ .id ∧
    (wReq .get pSlash .empty).method = .get := by decide
example : (regionRun yesEnv [(0, wReq .put (pSlash.take 18 ++ [47, 122]) (.val .null)), (2, wReq .get (pSlash.take 18) .empty),
      (1, wReq .delete (pSlash.take 18) .empty)] (RSys.start slashState)).done.map (·.2.2) =
    [.okWrite, .okGet (some (.obj [([121], .num [50]), ([122], .null)])) (pSlash.take 18), .okWrite] := by decide

/-! ### adapter warnings on /load (Warn.lean) -/

/-- a world with the wrapping adapter whose apps accept only the empty configuration -/
def warnEnv : Env := ⟨fun _ => [], fun j => j == .null,
  fun b => match b with
    | .val j => some (.obj [([97, 112, 112, 115], .obj [([99, 49, 50], j)])])
    | _ => none⟩

def warnReq : Req := ⟨.post, loadPath, .val (.bool true), [], false, .adapter⟩

/-- **a rejected POST /load is reported as rejected** (full strength, since /repo bbbf7b6): whatever
    the adapter warns about, the client of a load that was rejected reads an error status -/
theorem rejected_load_is_reported (env : Env) (r : Req) (s : State)
    (hrej : (handleLoad env r s).2.rejected = true) : loadStatusSeen env r s ≠ 200 := by
  unfold loadStatusSeen
  cases h : (handleLoad env r s).2 <;> simp_all [respStatus, Resp.rejected, statusOf_ne_200]

/-- … and warnings are only ever written for a load that succeeded -/
theorem warnings_written_only_after_successful_load (env : Env) (warns : Body → Bool) (r : Req) (s : State)
    (hw : warnsWritten env warns r s = true) : (handleLoad env r s).2 = .okWrite ∧ loadStatusSeen env r s = 200 := by
  unfold warnsWritten at hw
  have h : (handleLoad env r s).2 = .okWrite := by simp_all
  exact ⟨h, by simp [loadStatusSeen, h, respStatus]⟩

/-- **the old code answered a rejected load with 200** (non-vacuity of `rejected_load_is_reported`):
    before /repo bbbf7b6 the adapter's warnings were written to the response before `caddy.Load`
    ran; the load was rejected, nothing changed — and the client read status 200 -/
theorem rejected_load_is_reported_old_code_fails :
    ∃ (env : Env) (warns : Body → Bool) (r : Req) (s : State), Reachable env s ∧
      (handleLoad env r s).2.rejected = true ∧ (handleLoad env r s).1 = s ∧
      loadStatusSeenOld env warns r s = 200 ∧ loadStatusSeen env r s = 400 :=
  ⟨warnEnv, fun _ => true, warnReq, initState, .init, by decide, by decide, by decide, by decide⟩

/-- warnings or not, what is loaded is the same: the state after `POST /load` is `handleLoad`'s, in
    which warnings do not occur, and an accepted load answers 200 with or without them -/
theorem adapter_warnings_do_not_change_the_load (env : Env) (r : Req) (s : State)
    (hok : (handleLoad env r s).2 = .okWrite) : loadStatusSeen env r s = 200 := by
  simp [loadStatusSeen, hok, respStatus]

example : adapterWarned warnEnv (fun _ => true) warnReq = true ∧ (handleLoad warnEnv warnReq initState).2.rejected = true ∧
    warnsWritten warnEnv (fun _ => true) warnReq initState = false := by decide
example : loadStatusSeen warnEnv warnReq initState = 400 := by decide
-- an accepted load with warnings (this world's apps accept anything)
example : warnsWritten { warnEnv with accepts := fun _ => true } (fun _ => true) warnReq initState = true := by decide
example : (handleLoad warnEnv { warnReq with body := .val .null, ct := .json } initState).2 = .okWrite := by decide

/-- a target net/http cannot parse never reaches a handler -/
theorem wire_unparsable_target_changes_nothing (env : Env) (r : Req) (s : State) {t : Bytes}
    (h : parseTarget t = none) : wireServe env r t s = (s, .badRequest) := by
  simp [wireServe, h]

/-- **an encoded slash is a separator**: `/config/apps/c12/x%2Fy` decodes to `…/x/y` and reads the
    member `y` of `x` (2), not the member `x/y` (1) that the document also has — no spelling of a
    request target addresses a key containing '/' (cf. the known finding `id-below-unaddressable-key`) -/
theorem encoded_slash_is_a_separator :
    parseTarget tEncSlash = some (pSlash, tEncSlash) ∧ wireRoute tEncSlash = .config ∧
    cfgOf slashState.rawCfg = slashDoc ∧
    (wireServe yesEnv (wReq .get [] .empty) tEncSlash slashState).2 = .served (.okGet (some (.num [50])) pSlash) := by
  decide

/-- **the route is decided on the escaped path**: `/config%2Fapps` and `/%63onfig/apps` both decode
    to `/config/apps`; the first is not routed (404), the second is served -/
theorem route_is_decided_on_the_escaped_path :
    parseTarget tEncSep = some (wpApps, tEncSep) ∧ wireRoute tEncSep = .none ∧
    parseTarget tEncFirst = some (wpApps, tEncFirst) ∧ wireRoute tEncFirst = .config ∧ route wpApps = .config := by
  decide

/-- **encoded dots are not cleaned away**: the mux cleans the escaped path, so `%2e%2e` reaches
    the handler as a key named `..`, whereas the literal spelling is redirected -/
theorem encoded_dots_are_a_key :
    parseTarget tEncDots = some (pDots, tEncDots) ∧ wireRoute tEncDots = .config ∧ route pDots = .redirect ∧
    (wireServe yesEnv (wReq .get [] .empty) tEncDots slashState).2 = .served (.fail (.access .traversal)) := by
  decide

example : parseTarget tBadEsc = none := by decide
example : wireServe yesEnv (wReq .put [] (.val .null)) tBadEsc slashState = (slashState, .badRequest) :=
  wire_unparsable_target_changes_nothing _ _ _ (by decide)
example : unescapePath (escapePath [47, 107, 32, 107, 37, 63]) = some [47, 107, 32, 107, 37, 63] := (every_path_has_a_spelling _).1
-- wire_rejected_changes_nothing: a PUT with an undecodable body to an encoded spelling
example : (wireServe yesEnv (wReq .put [] .bad) tEncFirst slashState).2.rejected = true := by decide
example : underConfig wpApps := ⟨[[97, 112, 112, 115]], by decide⟩
example : wireServe yesEnv (wReq .get [] .empty) tEncFirst slashState = wireServe yesEnv (wReq .get [] .empty) wpApps slashState :=
  wire_spelling_does_not_matter _ _ _ (p := wpApps) (e₁ := tEncFirst) (e₂ := wpApps) (by decide) (by decide) (by decide) (by decide)

end CaddyModel.C12
