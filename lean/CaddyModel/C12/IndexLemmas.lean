/-
C12 — the `@id` index: decimal indices, `path.Join` on addressable segments, and how
`unsyncedConfigAccess` splits the path string the index stores.
-/
import CaddyModel.C12.PathLemmas

namespace CaddyModel.C12

/-! ### strconv.Itoa / strconv.Atoi round trip -/

theorem digit_facts : ∀ d, d < 10 → isDigit (48 + d).toUInt8 = true ∧ (48 + d).toUInt8.toNat - 48 = d ∧
    (48 + d).toUInt8 ≠ slash ∧ (48 + d).toUInt8 ≠ 46 ∧ (48 + d).toUInt8 ≠ 45 ∧ (48 + d).toUInt8 ≠ 43 := by
  decide

theorem digitsVal_snoc : ∀ (l : Bytes) (d : UInt8) (a : Nat), isDigit d = true →
    digitsVal (l ++ [d]) a = (digitsVal l a).map (fun x => x * 10 + (d.toNat - 48))
  | [], d, a, hd => by simp [digitsVal, hd]
  | c :: l, d, a, hd => by
    simp only [List.cons_append, digitsVal]
    split
    · exact digitsVal_snoc l d _ hd
    · rfl

/-- all characters are decimal digits -/
def allDigitsB (s : Bytes) : Prop := ∀ c ∈ s, isDigit c = true

theorem natDigitsF_spec : ∀ (fuel n : Nat), n < fuel →
    digitsVal (natDigitsF fuel n) 0 = some n ∧ natDigitsF fuel n ≠ [] ∧ allDigitsB (natDigitsF fuel n)
  | 0, n, h => by omega
  | fuel + 1, n, h => by
    unfold natDigitsF
    split
    · next hlt =>
      obtain ⟨h1, h2, _⟩ := digit_facts n hlt
      refine ⟨?_, by simp, ?_⟩
      · rw [digitsVal, if_pos h1, digitsVal, h2]; simp
      · intro c hc; rw [List.mem_singleton] at hc; rw [hc]; exact h1
    · next hge =>
      have hq : n / 10 < fuel := by omega
      obtain ⟨ih1, ih2, ih3⟩ := natDigitsF_spec fuel (n / 10) hq
      have hm : n % 10 < 10 := by omega
      obtain ⟨h1, h2, _⟩ := digit_facts (n % 10) hm
      refine ⟨?_, by simp, ?_⟩
      · rw [digitsVal_snoc _ _ _ h1, ih1, h2]; simp; omega
      · intro c hc
        rw [List.mem_append, List.mem_singleton] at hc
        rcases hc with hc | hc
        · exact ih3 c hc
        · rw [hc]; exact h1

theorem atoi_of_digits {s : Bytes} {n : Nat} (hne : s ≠ []) (hd : allDigitsB s) (hv : digitsVal s 0 = some n)
    (hn : n ≤ 9223372036854775807) : atoi s = some (n : Int) := by
  cases s with
  | nil => exact absurd rfl hne
  | cons c r =>
    have hc : isDigit c = true := hd c (by simp)
    have h45 : c ≠ 45 := by intro h; subst h; simp [isDigit] at hc
    have h43 : c ≠ 43 := by intro h; subst h; simp [isDigit] at hc
    unfold atoi
    split
    · next heq => simp at heq; exact absurd heq.1 h45
    · next heq => simp at heq; exact absurd heq.1 h43
    · simp [unsignedVal, hv, hn]

theorem atoi_natDigits {n : Nat} (hn : n ≤ 9223372036854775807) : atoi (natDigits n) = some (n : Int) := by
  obtain ⟨h1, h2, h3⟩ := natDigitsF_spec (n + 1) n (by omega)
  exact atoi_of_digits h2 h3 h1 hn

/-! ### addressable segments -/

/-- a path segment a URL can carry and `path.Clean` keeps: not empty, no '/', not "." or ".." -/
def okSeg (k : Bytes) : Prop := k ≠ [] ∧ slash ∉ k ∧ k ≠ dot ∧ k ≠ dotdot

theorem okSeg_natDigits (n : Nat) : okSeg (natDigits n) := by
  obtain ⟨_, h2, h3⟩ := natDigitsF_spec (n + 1) n (by omega)
  have h3' : ∀ c ∈ natDigits n, isDigit c = true := h3
  refine ⟨h2, ?_, ?_, ?_⟩
  · intro h; have := h3' _ h; simp [isDigit, slash] at this
  · intro h; rw [h] at h3'
    have := h3' 46 (by simp [dot]); simp [isDigit] at this
  · intro h; rw [h] at h3'
    have := h3' 46 (by simp [dotdot]); simp [isDigit] at this

theorem splitSlash_ne_nil : ∀ s : Bytes, splitSlash s ≠ []
  | [] => by simp [splitSlash]
  | c :: r => by
    rw [splitSlash]
    split
    · simp
    · split <;> simp

theorem splitSlash_cons (c : UInt8) (r : Bytes) :
    splitSlash (c :: r) = if c = slash then [] :: splitSlash r
      else match splitSlash r with
        | [] => [[c]]
        | p :: ps => (c :: p) :: ps := by
  rw [splitSlash]
  split
  · rfl
  · cases splitSlash r <;> rfl

theorem splitSlash_append (a b : Bytes) : splitSlash (a ++ slash :: b) = splitSlash a ++ splitSlash b := by
  induction a with
  | nil => simp [splitSlash_cons, splitSlash]
  | cons c a ih =>
    simp only [List.cons_append]
    rw [splitSlash_cons c (a ++ slash :: b), splitSlash_cons c a, ih]
    split
    · simp
    · cases h : splitSlash a with
      | nil => exact absurd h (splitSlash_ne_nil a)
      | cons p ps => simp

theorem splitSlash_noslash : ∀ {k : Bytes}, slash ∉ k → splitSlash k = [k]
  | [], _ => by simp [splitSlash]
  | c :: r, h => by
    have hc : c ≠ slash := fun e => h (by simp [e])
    have hr : slash ∉ r := fun e => h (by simp [e])
    rw [splitSlash_cons]
    simp [hc, splitSlash_noslash hr]

def okSegs (segs : List Bytes) : Prop := ∀ k ∈ segs, okSeg k

theorem splitSlash_render : ∀ {segs : List Bytes}, okSegs segs → segs ≠ [] → splitSlash (renderPath segs) = [] :: segs
  | [], _, h => absurd rfl h
  | [s], hok, _ => by
    have := (hok s (by simp)).2.1
    simp [renderPath, splitSlash, splitSlash_noslash this]
  | s :: t :: u, hok, _ => by
    have hs := (hok s (by simp)).2.1
    have ih := splitSlash_render (segs := t :: u) (fun k hk => hok k (by simp [hk])) (by simp)
    have hr : renderPath (s :: t :: u) = [] ++ slash :: (s ++ renderPath (t :: u)) := by
      simp [renderPath]
    have hr2 : renderPath (t :: u) = slash :: (t ++ (u.flatMap fun p => slash :: p)) := by simp [renderPath]
    rw [hr, splitSlash_append, hr2, splitSlash_append, splitSlash_noslash hs]
    rw [hr2] at ih
    have : splitSlash ([] ++ slash :: (t ++ (u.flatMap fun p => slash :: p))) = [] :: (t :: u) := by simpa using ih
    rw [splitSlash_append] at this
    simp [splitSlash] at this ⊢
    exact this

theorem cleanStep_ok {st : List Bytes} {k : Bytes} (h : okSeg k) : cleanStep st k = k :: st := by
  unfold cleanStep
  simp [h.1, h.2.2.1, h.2.2.2]

theorem foldl_cleanStep_ok : ∀ {segs : List Bytes} (st : List Bytes), okSegs segs → segs.foldl cleanStep st = segs.reverse ++ st
  | [], st, _ => by simp
  | k :: r, st, h => by
    simp only [List.foldl_cons]
    rw [cleanStep_ok (h k (by simp)), foldl_cleanStep_ok (k :: st) (fun x hx => h x (by simp [hx]))]
    simp

/-- `path.Join(p, k)` appends an addressable segment to a clean rooted path -/
theorem pathJoin_ok {segs : List Bytes} {k : Bytes} (hs : okSegs segs) (hne : segs ≠ []) (hk : okSeg k) :
    pathJoin (renderPath segs) k = renderPath (segs ++ [k]) := by
  unfold pathJoin cleanRooted
  rw [splitSlash_append, splitSlash_render hs hne, splitSlash_noslash hk.2.1]
  have hall : okSegs (segs ++ [k]) := by
    intro x hx; simp at hx; rcases hx with hx | hx
    · exact hs x hx
    · subst hx; exact hk
  have : ([] :: segs ++ [k]).foldl cleanStep [] = (segs ++ [k]).reverse := by
    simp only [List.cons_append, List.foldl_cons]
    have h0 : cleanStep [] ([] : Bytes) = [] := by simp [cleanStep]
    rw [h0, foldl_cleanStep_ok [] hall]; simp
  rw [this]; simp

/-! ### how `unsyncedConfigAccess` splits a stored index path -/

theorem rtrim_of_last_ne : ∀ (s : Bytes) (c : UInt8), c ≠ slash → rtrim (s ++ [c]) = s ++ [c] := by
  intro s c hc
  unfold rtrim
  rw [List.reverse_append]
  simp [List.dropWhile, hc]

theorem renderPath_cons (s : Bytes) (t : List Bytes) :
    renderPath (s :: t) = slash :: (s ++ (t.flatMap fun p => slash :: p)) := by
  simp [renderPath]

/-- the rendered path ends in the last character of its last segment -/
theorem render_snoc {segs : List Bytes} (hok : okSegs segs) (hne : segs ≠ []) :
    ∃ (body : Bytes) (c : UInt8), c ≠ slash ∧ renderPath segs = body ++ [c] := by
  obtain ⟨pre, last, rfl⟩ : ∃ pre last, segs = pre ++ [last] := by
    refine ⟨segs.dropLast, segs.getLast hne, ?_⟩
    exact (List.dropLast_concat_getLast hne).symm
  have hl := hok last (by simp)
  obtain ⟨lb, lc, hlast⟩ : ∃ lb lc, last = lb ++ [lc] :=
    ⟨last.dropLast, last.getLast hl.1, (List.dropLast_concat_getLast hl.1).symm⟩
  have hc : lc ≠ slash := by
    intro h; apply hl.2.1; rw [hlast, h]; simp
  refine ⟨(pre.flatMap fun p => slash :: p) ++ slash :: lb, lc, hc, ?_⟩
  have : renderPath (pre ++ [last]) = (pre ++ [last]).flatMap fun p => slash :: p := by
    cases pre <;> simp [renderPath]
  rw [this, hlast]; simp

theorem trimSlash_render {segs : List Bytes} (hok : okSegs segs) (hne : segs ≠ []) :
    slash :: trimSlash (renderPath segs) = renderPath segs := by
  obtain ⟨body, c, hc, hr⟩ := render_snoc hok hne
  cases segs with
  | nil => exact absurd rfl hne
  | cons s t =>
    have hs := hok s (by simp)
    obtain ⟨s0, sr, hs0⟩ : ∃ s0 sr, s = s0 :: sr := by
      cases s with
      | nil => exact absurd rfl hs.1
      | cons a b => exact ⟨a, b, rfl⟩
    have hs0ne : s0 ≠ slash := by intro h; apply hs.2.1; rw [hs0, h]; simp
    rw [trimSlash_eq]
    have hdrop : (renderPath (s :: t)).dropWhile (· = slash) = s ++ (t.flatMap fun p => slash :: p) := by
      rw [renderPath_cons, hs0]; simp [List.dropWhile, hs0ne]
    rw [hdrop]
    -- the remainder still ends in `c`
    have hrem : ∃ body', s ++ (t.flatMap fun p => slash :: p) = body' ++ [c] := by
      rw [renderPath_cons] at hr
      cases body with
      | nil => simp at hr; exact absurd hr.1.symm hc
      | cons b0 body' => simp at hr; exact ⟨body', hr.2⟩
    obtain ⟨body', hb⟩ := hrem
    rw [hb, rtrim_of_last_ne _ _ hc, ← hb, renderPath_cons]

theorem pathParts_render {segs : List Bytes} (hok : okSegs segs) (hne : segs ≠ []) (hlast : segs.getLast? ≠ some dots) :
    pathParts (renderPath segs) = (segs, false) := by
  have h1 := trimSlash_render hok hne
  have h2 := splitSlash_render hok hne
  rw [← h1] at h2
  have h3 : splitSlash (trimSlash (renderPath segs)) = segs := by
    have := splitSlash_append [] (trimSlash (renderPath segs))
    simp only [List.nil_append] at this
    rw [this] at h2
    simpa [splitSlash] using h2
  unfold pathParts
  rw [h3]
  simp [hlast]

theorem trimSlash_render_ne {segs : List Bytes} (hok : okSegs segs) (hne : segs ≠ []) : trimSlash (renderPath segs) ≠ [] := by
  intro h
  have h2 := splitSlash_render hok hne
  rw [← trimSlash_render hok hne, h] at h2
  have : splitSlash [slash] = [[], []] := by decide
  rw [this] at h2
  cases segs with
  | nil => exact absurd rfl hne
  | cons s t =>
    simp at h2
    exact (hok s (by simp)).1 h2.1

end CaddyModel.C12
