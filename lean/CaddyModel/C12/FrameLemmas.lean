/-
C12 — the frame lemma: a traversal changes nothing outside the container it ends in.
-/
import CaddyModel.C12.Lemmas

namespace CaddyModel.C12

theorem apart_nil_right (q : List Bytes) (node : Json) : apart q [] node = false := by
  cases q <;> cases node <;> simp [apart]

theorem sget_obj_cons (a : Bytes) (q : List Bytes) (kvs : Obj) :
    sget (a :: q) (.obj kvs) = match lookup a kvs with | some c => sget q c | none => none := by
  cases h : lookup a kvs <;> simp [sget, h]

theorem sget_arr_cons (a : Bytes) (q : List Bytes) (xs : List Json) :
    sget (a :: q) (.arr xs) =
      match atoi a with
      | some i => if 0 ≤ i then (match xs[i.toNat]? with | some c => sget q c | none => none) else none
      | none => none := by
  cases h : atoi a with
  | none => simp [sget, h]
  | some i =>
    by_cases h0 : 0 ≤ i
    · cases hx : xs[i.toNat]? <;> simp [sget, h, h0, hx]
    · simp [sget, h, h0]

/-- **frame.** Whatever the method, the body, and whether the call succeeds: a path `q` that
    parts ways with the path of the container the request ends in reads the same value
    before and after. -/
theorem trav_frame (m : Method) (ell : Bool) (val : Json) : ∀ (parts : List Bytes) (node : Json) (q : List Bytes),
    apart q parts.dropLast node = true → sget q (trav m ell val parts node).1 = sget q node := by
  intro parts
  induction parts with
  | nil => intro node q _; rw [trav_nil]
  | cons part rest ih =>
    intro node q hq
    cases node with
    | obj kvs =>
      rcases trav_obj_cases m ell val part rest kvs with ⟨arr, idxStr, rfl, hl, heq⟩ | ⟨rfl, heq⟩ | ⟨a', b, rfl, hns, heq⟩
      · -- array destination: container path is [part]
        cases q with
        | nil => simp [apart] at hq
        | cons a q' =>
          simp only [List.dropLast, apart] at hq
          by_cases hap : a = part
          · subst hap; simp [hl, apart_nil_right] at hq
          · rw [heq]; simp only [inArrayDest, sget_obj_cons, lookup_replaceKey_other hap]
      · simp [List.dropLast, apart_nil_right] at hq
      · cases q with
        | nil => simp [apart] at hq
        | cons a q' =>
          have hd : (part :: a' :: b).dropLast = part :: (a' :: b).dropLast := by simp [List.dropLast]
          rw [hd] at hq
          simp only [apart] at hq
          rw [heq]
          by_cases hap : a = part
          · subst hap
            simp only [if_true] at hq
            cases hl : lookup a kvs with
            | none => simp [hl] at hq
            | some c =>
              simp only [hl] at hq ⊢
              by_cases hc : (isNil (some c) && m == .put) = true
              · -- PUT replaces an explicit null by a fresh map: nothing below a null is `apart`
                have : c = .null := by
                  cases c <;> simp [isNil] at hc ⊢
                subst this
                cases q' <;> simp [apart] at hq
              · rw [if_neg hc]
                simp only [inObj, sget_obj_cons, hl, lookup_replaceKey_same (show (lookup a kvs).isSome by simp [hl])]
                exact ih c q' hq
          · have hne : ∀ x, lookup a (setKey part x kvs) = lookup a kvs := fun x => lookup_setKey_other x kvs hap
            split
            · simp only [inNewObj, sget_obj_cons, hne]
            · split
              · rfl
              · simp only [inObj, sget_obj_cons, lookup_replaceKey_other hap]
    | arr xs =>
      cases rest with
      | nil => simp [List.dropLast, apart_nil_right] at hq
      | cons r0 r' =>
        cases q with
        | nil => simp [apart] at hq
        | cons a q' =>
          -- the first element of `parts.dropLast` is `part` in every case
          have hd : ∃ tl, (part :: r0 :: r').dropLast = part :: tl ∧ (r' ≠ [] → tl = (r0 :: r').dropLast) ∧ (r' = [] → tl = []) := by
            cases r' with
            | nil => exact ⟨[], by simp [List.dropLast], by simp, by simp⟩
            | cons r1 r2 => exact ⟨(r0 :: r1 :: r2).dropLast, by simp [List.dropLast], by simp, by simp⟩
          obtain ⟨tl, hd, htl1, htl2⟩ := hd
          rw [hd] at hq
          simp only [apart] at hq
          cases ha : atoi a with
          | none => simp [ha] at hq
          | some i' =>
            rcases trav_arr_cases m ell val part (r0 :: r') xs with ⟨_, heq⟩ | ⟨i, _, _, heq⟩ | ⟨j, c, hj, h0j, hltj, hx, hcase⟩
            · rw [heq]
            · rw [heq]
            · simp only [ha, hj] at hq
              -- reading index i' from `xs` with element j replaced
              have hread : ∀ (c' : Json), i' ≠ j → sget (a :: q') (.arr (xs.set j.toNat c')) = sget (a :: q') (.arr xs) := by
                intro c' hij
                simp only [sget_arr_cons, ha]
                by_cases h0 : 0 ≤ i'
                · have hne : j.toNat ≠ i'.toNat := by omega
                  simp only [h0, if_true, List.getElem?_set_ne hne]
                · simp [h0]
              by_cases hij : i' = j
              · subst hij
                simp only [if_true, h0j, hx] at hq
                rcases hcase with ⟨arr, idxStr, rfl, hr, heq⟩ | ⟨_, heq⟩
                · -- array destination: `tl = []`, nothing below is apart
                  have : r' = [] := by simp at hr; exact hr.2
                  rw [htl2 this, apart_nil_right] at hq
                  cases hq
                · rw [heq]
                  simp only [inArr, sget_arr_cons, ha, h0j, if_true, hx]
                  have hlt : i'.toNat < xs.length := by omega
                  simp only [List.getElem?_set_self hlt]
                  have htl : tl = (r0 :: r').dropLast := by
                    cases r' with
                    | nil => simp [htl2 rfl, List.dropLast]
                    | cons _ _ => exact htl1 (by simp)
                  rw [htl] at hq
                  exact ih c q' hq
              · rcases hcase with ⟨arr, idxStr, rfl, hr, heq⟩ | ⟨_, heq⟩
                · rw [heq]; simp only [inArrayElem]; exact hread _ hij
                · rw [heq]; simp only [inArr]; exact hread _ hij
    | null => rw [trav_scalar (by simp) (by simp)]
    | bool _ => rw [trav_scalar (by simp) (by simp)]
    | num _ => rw [trav_scalar (by simp) (by simp)]
    | str _ => rw [trav_scalar (by simp) (by simp)]

end CaddyModel.C12
