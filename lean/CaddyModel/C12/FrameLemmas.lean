/-
C12 — the frame lemma: a traversal changes nothing outside the container it ends in.
-/
import CaddyModel.C12.Lemmas

namespace CaddyModel.C12

theorem apart_nil_right (q : List Bytes) (node : Json) : apart q [] node = false := by
  cases q <;> cases node <;> simp [apart]

theorem sget_obj_cons (a : Bytes) (q : List Bytes) (kvs : Obj) :
    sget (a :: q) (.obj kvs) = match lookup a kvs with | some c => sget q c | none => none := by
  cases h : lookup a kvs <;> simp [sget, h]

theorem sget_arr_cons (a : Bytes) (q : List Bytes) (xs : List Json) :
    sget (a :: q) (.arr xs) =
      match atoi a with
      | some i => if 0 ≤ i then (match xs[i.toNat]? with | some c => sget q c | none => none) else none
      | none => none := by
  cases h : atoi a with
  | none => simp [sget, h]
  | some i =>
    by_cases h0 : 0 ≤ i
    · cases hx : xs[i.toNat]? <;> simp [sget, h, h0, hx]
    · simp [sget, h, h0]

/-- **frame.** Whatever the method, the body, and whether the call succeeds: a path `q` that
    parts ways with the path of the container the request ends in reads the same value
    before and after. -/
theorem trav_frame (m : Method) (ell : Bool) (val : Json) : ∀ (parts : List Bytes) (node : Json) (q : List Bytes),
    apart q parts.dropLast node = true → sget q (trav m ell val parts node).1 = sget q node := by
  intro parts
  induction parts with
  | nil => intro node q _; rw [trav_nil]
  | cons part rest ih =>
    intro node q hq
    cases node with
    | obj kvs =>
      rcases trav_obj_cases m ell val part rest kvs with ⟨arr, idxStr, rfl, hl, heq⟩ | ⟨rfl, heq⟩ | ⟨a', b, rfl, hns, heq⟩
      · -- array destination: container path is [part]
        cases q with
        | nil => simp [apart] at hq
        | cons a q' =>
          simp only [List.dropLast, apart] at hq
          by_cases hap : a = part
          · subst hap; simp [hl, apart_nil_right] at hq
          · rw [heq]; simp only [inArrayDest, sget_obj_cons, lookup_replaceKey_other hap]
      · simp [List.dropLast, apart_nil_right] at hq
      · cases q with
        | nil => simp [apart] at hq
        | cons a q' =>
          have hd : (part :: a' :: b).dropLast = part :: (a' :: b).dropLast := by simp [List.dropLast]
          rw [hd] at hq
          simp only [apart] at hq
          rw [heq]
          by_cases hap : a = part
          · subst hap
            simp only [if_true] at hq
            cases hl : lookup a kvs with
            | none => simp [hl] at hq
            | some c =>
              simp only [hl] at hq ⊢
              by_cases hc : (isNil (some c) && m == .put) = true
              · -- PUT replaces an explicit null by a fresh map: nothing below a null is `apart`
                have : c = .null := by
                  cases c <;> simp [isNil] at hc ⊢
                subst this
                cases q' <;> simp [apart] at hq
              · rw [if_neg hc]
                simp only [inObj, sget_obj_cons, hl, lookup_replaceKey_same (show (lookup a kvs).isSome by simp [hl])]
                exact ih c q' hq
          · have hne : ∀ x, lookup a (setKey part x kvs) = lookup a kvs := fun x => lookup_setKey_other x kvs hap
            split
            · simp only [inNewObj, sget_obj_cons, hne]
            · split
              · rfl
              · simp only [inObj, sget_obj_cons, lookup_replaceKey_other hap]
    | arr xs =>
      cases rest with
      | nil => simp [List.dropLast, apart_nil_right] at hq
      | cons r0 r' =>
        cases q with
        | nil => simp [apart] at hq
        | cons a q' =>
          have hd : (part :: r0 :: r').dropLast = part :: (r0 :: r').dropLast := by simp [List.dropLast]
          rw [hd] at hq
          simp only [apart] at hq
          rw [trav_arr]
          cases ha : atoi a with
          | none => simp [ha] at hq
          | some i =>
            cases hj : atoi part with
            | none => simp [ha, hj] at hq
            | some j =>
              simp only [ha, hj] at hq ⊢
              by_cases hoob : j < 0 ∨ j ≥ xs.length
              · rw [if_pos hoob]
              · rw [if_neg hoob]
                cases hx : xs[j.toNat]? with
                | none => rfl
                | some c =>
                  simp only [inArr, sget_arr_cons, ha]
                  by_cases hij : i = j
                  · subst hij
                    simp only [if_true] at hq
                    by_cases h0 : 0 ≤ i
                    · simp only [h0, if_true, hx] at hq ⊢
                      have hlt : i.toNat < xs.length := by omega
                      simp only [List.getElem?_set_self hlt]
                      exact ih c q' hq
                    · simp [h0] at hq
                  · by_cases h0 : 0 ≤ i
                    · have hne : j.toNat ≠ i.toNat := by omega
                      simp only [h0, if_true, List.getElem?_set_ne hne]
                    · simp [h0]
    | null => rw [trav_scalar (by simp) (by simp)]
    | bool _ => rw [trav_scalar (by simp) (by simp)]
    | num _ => rw [trav_scalar (by simp) (by simp)]
    | str _ => rw [trav_scalar (by simp) (by simp)]

end CaddyModel.C12
