/-
C12 — the small abstract account the property talks about: a JSON document is a partial
function from paths to values (`sget`), and "what the running apps were given" is the
document with its `@id` members removed.  Nothing here mentions methods, special cases
or error classes.
-/
import CaddyModel.C12.Model

namespace CaddyModel.C12

/-- the value a path names: object members by key, array elements by decimal index -/
def sget : List Bytes → Json → Option Json
  | [], j => some j
  | p :: r, .obj kvs =>
    match lookup p kvs with
    | some c => sget r c
    | none => none
  | p :: r, .arr xs =>
    match atoi p with
    | some i =>
      if 0 ≤ i then
        match xs[i.toNat]? with
        | some c => sget r c
        | none => none
      else none
    | none => none
  | _ :: _, _ => none

/-- two paths part ways inside `doc`: at some container both reach, they select different
    children (object keys compared as strings, array indices as numbers) -/
def apart : List Bytes → List Bytes → Json → Bool
  | a :: q, b :: p, .obj kvs =>
    if a = b then
      match lookup a kvs with
      | some c => apart q p c
      | none => false
    else true
  | a :: q, b :: p, .arr xs =>
    match atoi a, atoi b with
    | some i, some j =>
      if i = j then
        (if 0 ≤ i then
          match xs[i.toNat]? with
          | some c => apart q p c
          | none => false
        else false)
      else true
    | _, _ => false
  | _, _, _ => false

/-! ### tagged objects -/

mutual
/-- every `"@id"` member of a document that has an indexable value: where its object sits
    (keys and decimal array indices from the document root) and the text it is indexed under -/
def taggedJ : Json → List (List Bytes × Bytes)
  | .obj kvs => taggedO kvs
  | .arr xs => taggedL xs 0
  | _ => []
def taggedO : Obj → List (List Bytes × Bytes)
  | [] => []
  | (k, v) :: r =>
    if k = idKey then
      (match idText v with
        | some t => [([], t)]
        | none => []) ++ taggedO r
    else (taggedJ v).map (fun e => (k :: e.1, e.2)) ++ taggedO r
def taggedL : List Json → Nat → List (List Bytes × Bytes)
  | [], _ => []
  | x :: xs, i => (taggedJ x).map (fun e => (natDigits i :: e.1, e.2)) ++ taggedL xs (i + 1)
end

mutual
/-- representation invariant of a Go map: no key twice -/
def uniqueKeys : Json → Bool
  | .arr xs => uniqueKeysL xs
  | .obj kvs => uniqueKeysO kvs
  | _ => true
def uniqueKeysL : List Json → Bool
  | [] => true
  | x :: xs => uniqueKeys x && uniqueKeysL xs
def uniqueKeysO : Obj → Bool
  | [] => true
  | (k, v) :: r => (lookup k r).isNone && uniqueKeys v && uniqueKeysO r
end

mutual
/-- every array index fits Go's `int` (so that `strconv.Atoi(strconv.Itoa(i)) == i`) -/
def shortArrays : Json → Bool
  | .arr xs => decide (xs.length ≤ 9223372036854775807) && shortArraysL xs
  | .obj kvs => shortArraysO kvs
  | _ => true
def shortArraysL : List Json → Bool
  | [] => true
  | x :: xs => shortArrays x && shortArraysL xs
def shortArraysO : Obj → Bool
  | [] => true
  | (_, v) :: r => shortArrays v && shortArraysO r
end

/-! ### canonical form -/

/-- the first key of a member list is above `k` (or there is none) -/
def headAbove (k : Bytes) : Obj → Bool
  | [] => true
  | (k', _) :: _ => bytesLt k k'

mutual
/-- every object lists its keys in strictly increasing byte order — the order `json.Marshal`
    prints a Go map in; in this form two trees are equal iff their encodings are -/
def canonical : Json → Bool
  | .arr xs => canonicalL xs
  | .obj kvs => canonicalO kvs
  | _ => true
def canonicalL : List Json → Bool
  | [] => true
  | x :: xs => canonical x && canonicalL xs
def canonicalO : Obj → Bool
  | [] => true
  | (k, v) :: r => headAbove k r && canonical v && canonicalO r
end

mutual
/-- equal as nested Go maps / slices: same scalars, element-wise equal arrays, objects with
    the same keys and equal values under them — regardless of the order members are listed in -/
def mapEq : Json → Json → Bool
  | .null, .null => true
  | .bool a, .bool b => a == b
  | .num a, .num b => a == b
  | .str a, .str b => a == b
  | .arr xs, .arr ys => mapEqL xs ys
  | .obj a, .obj b => b.all (fun e => (lookup e.1 a).isSome) && mapEqO a b
  | _, _ => false
def mapEqL : List Json → List Json → Bool
  | [], [] => true
  | x :: xs, y :: ys => mapEq x y && mapEqL xs ys
  | _, _ => false
/-- every member of the first list has an equal value under the same key in the second (the
    object case of `mapEq` adds: and the second has no key the first lacks) -/
def mapEqO : Obj → Obj → Bool
  | [], _ => true
  | (k, v) :: r, b =>
    (match lookup k b with
      | some w => mapEq v w
      | none => false) && mapEqO r b
end

end CaddyModel.C12
