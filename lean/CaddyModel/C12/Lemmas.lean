/-
C12 — helper lemmas: association lists, list updates, and the traversal's basic facts
(errors leave the tree alone, GET leaves the tree alone, no Go panic is reachable).
-/
import CaddyModel.C12.Spec

namespace CaddyModel.C12

/-! ### association lists -/

theorem replaceKey_self {k : Bytes} {v : Json} : ∀ {m : Obj}, lookup k m = some v → replaceKey k v m = m
  | [], h => by simp [lookup] at h
  | (k', v') :: r, h => by
    unfold lookup at h
    unfold replaceKey
    split
    · next hk => subst hk; simp at h; subst h; rfl
    · next hk => simp [hk] at h; rw [replaceKey_self h]

theorem lookup_replaceKey_same {k : Bytes} {v : Json} : ∀ {m : Obj}, (lookup k m).isSome → lookup k (replaceKey k v m) = some v
  | [], h => by simp [lookup] at h
  | (k', v') :: r, h => by
    unfold lookup at h
    unfold replaceKey
    split
    · next hk => simp [lookup]
    · next hk => simp [hk] at h; simp [lookup, hk, lookup_replaceKey_same h]

theorem lookup_replaceKey_other {k k' : Bytes} {v : Json} (hne : k' ≠ k) : ∀ {m : Obj}, lookup k' (replaceKey k v m) = lookup k' m
  | [] => by simp [replaceKey]
  | (k'', v'') :: r => by
    unfold replaceKey
    split
    · next hk => subst hk; simp [lookup, hne]
    · next hk => simp only [lookup]; split <;> simp [lookup_replaceKey_other hne]

theorem lookup_insertSorted_same {k : Bytes} {v : Json} : ∀ {m : Obj}, lookup k m = none → lookup k (insertSorted k v m) = some v
  | [], _ => by simp [insertSorted, lookup]
  | (k', v') :: r, h => by
    unfold lookup at h
    split at h
    · cases h
    · next hk =>
      unfold insertSorted
      split
      · simp [lookup]
      · simp [lookup, hk, lookup_insertSorted_same h]

theorem lookup_insertSorted_other {k k' : Bytes} {v : Json} (hne : k' ≠ k) : ∀ {m : Obj}, lookup k' (insertSorted k v m) = lookup k' m
  | [] => by simp [insertSorted, lookup, hne]
  | (k'', v'') :: r => by
    unfold insertSorted
    split
    · simp [lookup, hne]
    · simp only [lookup]; split <;> simp [lookup_insertSorted_other hne]

theorem lookup_setKey_same (k : Bytes) (v : Json) (m : Obj) : lookup k (setKey k v m) = some v := by
  unfold setKey
  split
  · next h => exact lookup_replaceKey_same h
  · next h =>
    apply lookup_insertSorted_same
    cases hh : lookup k m <;> simp_all

theorem lookup_setKey_other {k k' : Bytes} (v : Json) (m : Obj) (hne : k' ≠ k) : lookup k' (setKey k v m) = lookup k' m := by
  unfold setKey
  split
  · exact lookup_replaceKey_other hne
  · exact lookup_insertSorted_other hne

theorem lookup_eraseKey_same (k : Bytes) : ∀ (m : Obj), lookup k (eraseKey k m) = none
  | [] => by simp [eraseKey, lookup]
  | (k', v') :: r => by
    unfold eraseKey
    split
    · exact lookup_eraseKey_same k r
    · next hk => simp [lookup, hk, lookup_eraseKey_same k r]

theorem lookup_eraseKey_other {k k' : Bytes} (hne : k' ≠ k) : ∀ (m : Obj), lookup k' (eraseKey k m) = lookup k' m
  | [] => by simp [eraseKey]
  | (k'', v'') :: r => by
    unfold eraseKey
    split
    · next hk => subst hk; simp [lookup, hne, lookup_eraseKey_other hne r]
    · simp only [lookup]; split <;> simp [lookup_eraseKey_other hne r]

theorem set_self {α} : ∀ {xs : List α} {i : Nat} {c : α}, xs[i]? = some c → xs.set i c = xs
  | [], _, _, h => by simp at h
  | x :: xs, 0, c, h => by simp at h; simp [h]
  | x :: xs, i + 1, c, h => by simp at h; simp [set_self h]

/-! ### the traversal -/

/-- index checks of the array-destination arm, in `Nat` terms -/
theorem idx_in_range {idx : Int} {n : Nat} (h0 : ¬ idx < 0) (h1 : ¬ idx ≥ (n : Int)) : idx.toNat < n := by
  omega

theorem arrayOp_err {m : Method} {ell : Bool} {val : Json} {idxStr : Bytes} {arr : List Json} {e : Err} :
    (arrayOp m ell val idxStr arr).2 = .err e → (arrayOp m ell val idxStr arr).1 = arr := by
  cases m <;> simp only [arrayOp] <;> intro h <;> (repeat' split at h) <;> simp_all

theorem arrayOp_no_panic (m : Method) (ell : Bool) (val : Json) (idxStr : Bytes) (arr : List Json) :
    (arrayOp m ell val idxStr arr).2 ≠ .panic := by
  cases m <;> simp only [arrayOp] <;> intro h <;> (repeat' split at h) <;> simp_all <;> omega

end CaddyModel.C12
