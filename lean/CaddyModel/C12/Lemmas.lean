/-
C12 — helper lemmas: association lists, list updates, and the traversal's basic facts
(errors leave the tree alone, GET leaves the tree alone, no Go panic is reachable).
-/
import CaddyModel.C12.Spec

namespace CaddyModel.C12

/-! ### association lists -/

theorem replaceKey_self {k : Bytes} {v : Json} : ∀ {m : Obj}, lookup k m = some v → replaceKey k v m = m
  | [], h => by simp [lookup] at h
  | (k', v') :: r, h => by
    unfold lookup at h
    unfold replaceKey
    split
    · next hk => subst hk; simp at h; subst h; rfl
    · next hk => simp [hk] at h; rw [replaceKey_self h]

theorem lookup_replaceKey_same {k : Bytes} {v : Json} : ∀ {m : Obj}, (lookup k m).isSome → lookup k (replaceKey k v m) = some v
  | [], h => by simp [lookup] at h
  | (k', v') :: r, h => by
    unfold lookup at h
    unfold replaceKey
    split
    · next hk => simp [lookup]
    · next hk => simp [hk] at h; simp [lookup, hk, lookup_replaceKey_same h]

theorem lookup_replaceKey_other {k k' : Bytes} {v : Json} (hne : k' ≠ k) : ∀ {m : Obj}, lookup k' (replaceKey k v m) = lookup k' m
  | [] => by simp [replaceKey]
  | (k'', v'') :: r => by
    unfold replaceKey
    split
    · next hk => subst hk; simp [lookup, hne]
    · next hk => simp only [lookup]; split <;> simp [lookup_replaceKey_other hne]

theorem lookup_insertSorted_same {k : Bytes} {v : Json} : ∀ {m : Obj}, lookup k m = none → lookup k (insertSorted k v m) = some v
  | [], _ => by simp [insertSorted, lookup]
  | (k', v') :: r, h => by
    unfold lookup at h
    split at h
    · cases h
    · next hk =>
      unfold insertSorted
      split
      · simp [lookup]
      · simp [lookup, hk, lookup_insertSorted_same h]

theorem lookup_insertSorted_other {k k' : Bytes} {v : Json} (hne : k' ≠ k) : ∀ {m : Obj}, lookup k' (insertSorted k v m) = lookup k' m
  | [] => by simp [insertSorted, lookup, hne]
  | (k'', v'') :: r => by
    unfold insertSorted
    split
    · simp [lookup, hne]
    · simp only [lookup]; split <;> simp [lookup_insertSorted_other hne]

theorem lookup_setKey_same (k : Bytes) (v : Json) (m : Obj) : lookup k (setKey k v m) = some v := by
  unfold setKey
  split
  · next h => exact lookup_replaceKey_same h
  · next h =>
    apply lookup_insertSorted_same
    cases hh : lookup k m <;> simp_all

theorem lookup_setKey_other {k k' : Bytes} (v : Json) (m : Obj) (hne : k' ≠ k) : lookup k' (setKey k v m) = lookup k' m := by
  unfold setKey
  split
  · exact lookup_replaceKey_other hne
  · exact lookup_insertSorted_other hne

theorem lookup_eraseKey_same (k : Bytes) : ∀ (m : Obj), lookup k (eraseKey k m) = none
  | [] => by simp [eraseKey, lookup]
  | (k', v') :: r => by
    unfold eraseKey
    split
    · exact lookup_eraseKey_same k r
    · next hk => simp [lookup, hk, lookup_eraseKey_same k r]

theorem lookup_eraseKey_other {k k' : Bytes} (hne : k' ≠ k) : ∀ (m : Obj), lookup k' (eraseKey k m) = lookup k' m
  | [] => by simp [eraseKey]
  | (k'', v'') :: r => by
    unfold eraseKey
    split
    · next hk => subst hk; simp [lookup, hne, lookup_eraseKey_other hne r]
    · simp only [lookup]; split <;> simp [lookup_eraseKey_other hne r]

theorem set_self {α} : ∀ {xs : List α} {i : Nat} {c : α}, xs[i]? = some c → xs.set i c = xs
  | [], _, _, h => by simp at h
  | x :: xs, 0, c, h => by simp at h; simp [h]
  | x :: xs, i + 1, c, h => by simp at h; simp [set_self h]

/-! ### the traversal -/

/-- index checks of the array-destination arm, in `Nat` terms -/
theorem idx_in_range {idx : Int} {n : Nat} (h0 : ¬ idx < 0) (h1 : ¬ idx ≥ (n : Int)) : idx.toNat < n := by
  omega

theorem arrayOp_err {m : Method} {ell : Bool} {val : Json} {idxStr : Bytes} {arr : List Json} {e : Err} :
    (arrayOp m ell val idxStr arr).2 = .err e → (arrayOp m ell val idxStr arr).1 = arr := by
  cases m <;> simp only [arrayOp] <;> intro h <;> (repeat' split at h) <;> simp_all

theorem arrayOp_no_panic (m : Method) (ell : Bool) (val : Json) (idxStr : Bytes) (arr : List Json) :
    (arrayOp m ell val idxStr arr).2 ≠ .panic := by
  cases m <;> simp only [arrayOp] <;> intro h <;> (repeat' split at h) <;> simp_all <;> omega

theorem lastOp_notok {m : Method} {ell : Bool} {val : Json} {part : Bytes} {kvs : Obj} {child : Option Json}
    (h : ∀ out, (lastOp m ell val part kvs child).2 ≠ .ok out) : (lastOp m ell val part kvs child).1 = .obj kvs := by
  revert h
  cases m <;> simp only [lastOp] <;> intro h <;> (repeat' split) <;> simp_all

theorem lastOp_no_panic (m : Method) (ell : Bool) (val : Json) (part : Bytes) (kvs : Obj) (child : Option Json) :
    (lastOp m ell val part kvs child).2 ≠ .panic := by
  cases m <;> simp only [lastOp] <;> (repeat' split) <;> simp

theorem arrayOp_notok {m : Method} {ell : Bool} {val : Json} {idxStr : Bytes} {arr : List Json}
    (h : ∀ out, (arrayOp m ell val idxStr arr).2 ≠ .ok out) : (arrayOp m ell val idxStr arr).1 = arr := by
  cases hr : (arrayOp m ell val idxStr arr).2 with
  | ok out => exact absurd hr (h out)
  | err e => exact arrayOp_err hr
  | panic => exact absurd hr (arrayOp_no_panic m ell val idxStr arr)

/-! unfolding equations of `trav`, one per arm (Lean's own `trav.eq_n`, renamed) -/

theorem trav_nil (m : Method) (ell : Bool) (val : Json) (node : Json) : trav m ell val [] node = (node, .ok none) :=
  trav.eq_1 m ell val node

theorem trav_obj_special {m : Method} {ell : Bool} {val : Json} {part idxStr : Bytes} {kvs : Obj} {arr : List Json}
    (h : lookup part kvs = some (.arr arr)) :
    trav m ell val [part, idxStr] (.obj kvs) = inArrayDest part kvs (arrayOp m ell val idxStr arr) :=
  trav.eq_2 m ell val part kvs arr idxStr h

theorem trav_obj_last (m : Method) (ell : Bool) (val : Json) (part : Bytes) (kvs : Obj) :
    trav m ell val [part] (.obj kvs) = lastOp m ell val part kvs (lookup part kvs) :=
  trav.eq_3 m ell val part kvs

theorem trav_obj_mid {m : Method} {ell : Bool} {val : Json} {part a : Bytes} {b : List Bytes} {kvs : Obj}
    (hns : ∀ arr, lookup part kvs = some (.arr arr) → b ≠ []) :
    trav m ell val (part :: a :: b) (.obj kvs) =
      if isNil (lookup part kvs) && m == .put then inNewObj part kvs (trav m ell val (a :: b) (.obj []))
      else match lookup part kvs with
        | none => (.obj kvs, .err .traversal)
        | some c => inObj part kvs (trav m ell val (a :: b) c) :=
  trav.eq_4 m ell val part kvs a b hns

theorem trav_arr (m : Method) (ell : Bool) (val : Json) (part : Bytes) (rest : List Bytes) (xs : List Json) :
    trav m ell val (part :: rest) (.arr xs) =
      match atoi part with
      | none => (.arr xs, .err .badIndex)
      | some i =>
        if i < 0 ∨ i ≥ xs.length then (.arr xs, .err .oob)
        else match xs[i.toNat]?, rest with
          | none, _ => (.arr xs, .panic)
          | some (.arr arr), [idxStr] => inArrayElem i.toNat xs (arrayOp m ell val idxStr arr)
          | some c, _ => inArr i.toNat xs (trav m ell val rest c) :=
  trav.eq_5 m ell val part rest xs

/-- the ways an array node is entered, as one case split -/
theorem trav_arr_cases (m : Method) (ell : Bool) (val : Json) (part : Bytes) (rest : List Bytes) (xs : List Json) :
    (atoi part = none ∧ trav m ell val (part :: rest) (.arr xs) = (.arr xs, .err .badIndex)) ∨
    (∃ i, atoi part = some i ∧ (i < 0 ∨ i ≥ xs.length) ∧ trav m ell val (part :: rest) (.arr xs) = (.arr xs, .err .oob)) ∨
    (∃ i c, atoi part = some i ∧ 0 ≤ i ∧ i < xs.length ∧ xs[i.toNat]? = some c ∧
      ((∃ arr idxStr, c = .arr arr ∧ rest = [idxStr] ∧
          trav m ell val (part :: rest) (.arr xs) = inArrayElem i.toNat xs (arrayOp m ell val idxStr arr)) ∨
       ((∀ arr idxStr, c = .arr arr → rest ≠ [idxStr]) ∧
          trav m ell val (part :: rest) (.arr xs) = inArr i.toNat xs (trav m ell val rest c)))) := by
  rw [trav_arr]
  cases ha : atoi part with
  | none => exact Or.inl ⟨rfl, rfl⟩
  | some i =>
    by_cases hoob : i < 0 ∨ i ≥ xs.length
    · exact Or.inr (Or.inl ⟨i, rfl, hoob, by simp [hoob]⟩)
    · have hlt : i.toNat < xs.length := by omega
      obtain ⟨c, hc⟩ : ∃ c, xs[i.toNat]? = some c := ⟨xs[i.toNat], by simp [hlt]⟩
      refine Or.inr (Or.inr ⟨i, c, rfl, by omega, by omega, hc, ?_⟩)
      simp only [if_neg hoob, hc]
      by_cases hs : ∃ arr idxStr, c = .arr arr ∧ rest = [idxStr]
      · obtain ⟨arr, idxStr, rfl, rfl⟩ := hs
        exact Or.inl ⟨arr, idxStr, rfl, rfl, rfl⟩
      · refine Or.inr ⟨fun arr idxStr h1 h2 => hs ⟨arr, idxStr, h1, h2⟩, ?_⟩
        split
        · next h => cases h
        · exfalso; apply hs; simp_all
        · simp_all

theorem trav_arr_special {m : Method} {ell : Bool} {val : Json} {part idxStr : Bytes} {xs arr : List Json} {i : Int}
    (ha : atoi part = some i) (h0 : 0 ≤ i) (hlt : i < xs.length) (hx : xs[i.toNat]? = some (.arr arr)) :
    trav m ell val [part, idxStr] (.arr xs) = inArrayElem i.toNat xs (arrayOp m ell val idxStr arr) := by
  rcases trav_arr_cases m ell val part [idxStr] xs with ⟨hn, _⟩ | ⟨j, hj, hoob, _⟩ | ⟨j, c, hj, _, _, hc, ⟨arr', idxStr', rfl, hr, heq⟩ | ⟨hns, _⟩⟩
  · rw [ha] at hn; cases hn
  · rw [ha] at hj; cases hj; omega
  · rw [ha] at hj; cases hj; rw [hx] at hc; cases hc; simp at hr; subst hr; exact heq
  · rw [ha] at hj; cases hj; rw [hx] at hc; cases hc; exact absurd rfl (hns arr idxStr rfl)

theorem trav_arr_in {m : Method} {ell : Bool} {val : Json} {part : Bytes} {rest : List Bytes} {xs : List Json} {i : Int} {c : Json}
    (ha : atoi part = some i) (h0 : 0 ≤ i) (hlt : i < xs.length) (hx : xs[i.toNat]? = some c)
    (hns : ∀ arr idxStr, c = .arr arr → rest ≠ [idxStr]) :
    trav m ell val (part :: rest) (.arr xs) = inArr i.toNat xs (trav m ell val rest c) := by
  rcases trav_arr_cases m ell val part rest xs with ⟨hn, _⟩ | ⟨j, hj, hoob, _⟩ | ⟨j, c', hj, _, _, hc, ⟨arr', idxStr', rfl, hr, _⟩ | ⟨_, heq⟩⟩
  · rw [ha] at hn; cases hn
  · rw [ha] at hj; cases hj; omega
  · rw [ha] at hj; cases hj; rw [hx] at hc; cases hc; exact absurd hr (hns arr' idxStr' rfl)
  · rw [ha] at hj; cases hj; rw [hx] at hc; cases hc; exact heq

theorem trav_scalar {m : Method} {ell : Bool} {val : Json} {part : Bytes} {rest : List Bytes} {node : Json}
    (h1 : ∀ kvs, node ≠ .obj kvs) (h2 : ∀ xs, node ≠ .arr xs) :
    trav m ell val (part :: rest) node = (node, .err .traversal) :=
  trav.eq_6 m ell val node part rest h1 h2

/-- the three ways an object node is entered, as one case split -/
theorem trav_obj_cases (m : Method) (ell : Bool) (val : Json) (part : Bytes) (rest : List Bytes) (kvs : Obj) :
    (∃ arr idxStr, rest = [idxStr] ∧ lookup part kvs = some (.arr arr) ∧
        trav m ell val (part :: rest) (.obj kvs) = inArrayDest part kvs (arrayOp m ell val idxStr arr)) ∨
    (rest = [] ∧ trav m ell val (part :: rest) (.obj kvs) = lastOp m ell val part kvs (lookup part kvs)) ∨
    (∃ a b, rest = a :: b ∧ (∀ arr, lookup part kvs = some (.arr arr) → b ≠ []) ∧
        trav m ell val (part :: rest) (.obj kvs) =
          if isNil (lookup part kvs) && m == .put then inNewObj part kvs (trav m ell val (a :: b) (.obj []))
          else match lookup part kvs with
            | none => (.obj kvs, .err .traversal)
            | some c => inObj part kvs (trav m ell val (a :: b) c)) := by
  cases rest with
  | nil => exact Or.inr (Or.inl ⟨rfl, trav_obj_last ..⟩)
  | cons a b =>
    by_cases hs : ∃ arr, lookup part kvs = some (.arr arr) ∧ b = []
    · obtain ⟨arr, hl, rfl⟩ := hs
      exact Or.inl ⟨arr, a, rfl, hl, trav_obj_special hl⟩
    · have hns : ∀ arr, lookup part kvs = some (.arr arr) → b ≠ [] := fun arr hl hb => hs ⟨arr, hl, hb⟩
      exact Or.inr (Or.inr ⟨a, b, rfl, hns, trav_obj_mid hns⟩)

/-- PUT below a map it has just made never fails -/
theorem trav_put_fresh (ell : Bool) (val : Json) : ∀ (rest : List Bytes), rest ≠ [] →
    (trav .put ell val rest (.obj [])).2 = .ok none
  | [], h => absurd rfl h
  | [p], _ => by simp [trav_obj_last, lookup, lastOp]
  | p :: q :: r, _ => by
    have ih := trav_put_fresh ell val (q :: r) (by simp)
    rw [trav_obj_mid (by simp [lookup])]
    simp [lookup, isNil, inNewObj, ih]

/-- a call that does not return `nil` leaves the tree exactly as it was -/
theorem trav_notok_pure (m : Method) (ell : Bool) (val : Json) : ∀ (parts : List Bytes) (node : Json),
    (∀ out, (trav m ell val parts node).2 ≠ .ok out) → (trav m ell val parts node).1 = node := by
  intro parts
  induction parts with
  | nil => intro node h; simp [trav_nil] at h
  | cons part rest ih =>
    intro node h
    cases node with
    | obj kvs =>
      rcases trav_obj_cases m ell val part rest kvs with ⟨arr, idxStr, rfl, hl, heq⟩ | ⟨rfl, heq⟩ | ⟨a, b, rfl, hns, heq⟩
      · rw [heq] at h ⊢
        simp only [inArrayDest] at h ⊢
        rw [arrayOp_notok h, replaceKey_self hl]
      · rw [heq] at h ⊢
        exact lastOp_notok h
      · rw [heq] at h ⊢
        by_cases hc : (isNil (lookup part kvs) && m == .put) = true
        · rw [if_pos hc] at h
          simp only [inNewObj] at h
          have := trav_put_fresh ell val (a :: b) (by simp)
          simp at hc
          rw [hc.2] at h
          exact absurd this (h none)
        · rw [if_neg hc] at h ⊢
          cases hl : lookup part kvs with
          | none => rfl
          | some c =>
            simp only [hl, inObj] at h ⊢
            rw [ih c h, replaceKey_self hl]
    | arr xs =>
      rcases trav_arr_cases m ell val part rest xs with ⟨_, heq⟩ | ⟨i, _, _, heq⟩ | ⟨i, c, ha, h0, hlt, hx, ⟨arr, idxStr, rfl, rfl, heq⟩ | ⟨_, heq⟩⟩
      · rw [heq]
      · rw [heq]
      · rw [heq] at h ⊢
        simp only [inArrayElem] at h ⊢
        rw [arrayOp_notok h, set_self hx]
      · rw [heq] at h ⊢
        simp only [inArr] at h ⊢
        rw [ih c h, set_self hx]
    | null => rw [trav_scalar (by simp) (by simp)]
    | bool b => rw [trav_scalar (by simp) (by simp)]
    | num t => rw [trav_scalar (by simp) (by simp)]
    | str t => rw [trav_scalar (by simp) (by simp)]

theorem arrayOp_get_pure (ell : Bool) (val : Json) (idxStr : Bytes) (arr : List Json) :
    (arrayOp .get ell val idxStr arr).1 = arr := by
  simp only [arrayOp]; (repeat' split) <;> simp_all

/-- GET never changes the tree -/
theorem trav_get_pure (ell : Bool) (val : Json) : ∀ (parts : List Bytes) (node : Json),
    (trav .get ell val parts node).1 = node := by
  intro parts
  induction parts with
  | nil => intro node; simp [trav_nil]
  | cons part rest ih =>
    intro node
    cases node with
    | obj kvs =>
      rcases trav_obj_cases .get ell val part rest kvs with ⟨arr, idxStr, rfl, hl, heq⟩ | ⟨rfl, heq⟩ | ⟨a, b, rfl, hns, heq⟩
      · rw [heq]; simp only [inArrayDest]; rw [arrayOp_get_pure, replaceKey_self hl]
      · rw [heq]; rfl
      · rw [heq]
        have hc : ¬ (isNil (lookup part kvs) && Method.get == .put) = true := by simp
        rw [if_neg hc]
        cases hl : lookup part kvs with
        | none => rfl
        | some c => simp only [inObj]; rw [ih c, replaceKey_self hl]
    | arr xs =>
      rcases trav_arr_cases .get ell val part rest xs with ⟨_, heq⟩ | ⟨i, _, _, heq⟩ | ⟨i, c, ha, h0, hlt, hx, ⟨arr, idxStr, rfl, rfl, heq⟩ | ⟨_, heq⟩⟩
      · rw [heq]
      · rw [heq]
      · rw [heq]; simp only [inArrayElem]; rw [arrayOp_get_pure, set_self hx]
      · rw [heq]; simp only [inArr]; rw [ih c, set_self hx]
    | null => rw [trav_scalar (by simp) (by simp)]
    | bool b => rw [trav_scalar (by simp) (by simp)]
    | num t => rw [trav_scalar (by simp) (by simp)]
    | str t => rw [trav_scalar (by simp) (by simp)]

/-- no index expression of the traversal can go out of range -/
theorem trav_no_panic (m : Method) (ell : Bool) (val : Json) : ∀ (parts : List Bytes) (node : Json),
    (trav m ell val parts node).2 ≠ .panic := by
  intro parts
  induction parts with
  | nil => intro node; simp [trav_nil]
  | cons part rest ih =>
    intro node
    cases node with
    | obj kvs =>
      rcases trav_obj_cases m ell val part rest kvs with ⟨arr, idxStr, rfl, hl, heq⟩ | ⟨rfl, heq⟩ | ⟨a, b, rfl, hns, heq⟩
      · rw [heq]; exact arrayOp_no_panic m ell val idxStr arr
      · rw [heq]; exact lastOp_no_panic m ell val part kvs _
      · rw [heq]
        split
        · exact ih _
        · split
          · simp
          · exact ih _
    | arr xs =>
      rcases trav_arr_cases m ell val part rest xs with ⟨_, heq⟩ | ⟨i, _, _, heq⟩ | ⟨i, c, ha, h0, hlt, hx, ⟨arr, idxStr, rfl, rfl, heq⟩ | ⟨_, heq⟩⟩
      · rw [heq]; simp
      · rw [heq]; simp
      · rw [heq]; exact arrayOp_no_panic m ell val idxStr arr
      · rw [heq]; exact ih _
    | null => rw [trav_scalar (by simp) (by simp)]; simp
    | bool b => rw [trav_scalar (by simp) (by simp)]; simp
    | num t => rw [trav_scalar (by simp) (by simp)]; simp
    | str t => rw [trav_scalar (by simp) (by simp)]; simp

theorem arrayOp_get_ok {ell : Bool} {val : Json} {idxStr : Bytes} {arr : List Json} {x : Json}
    (h : (arrayOp .get ell val idxStr arr).2 = .ok (some x)) :
    ∃ i : Int, atoi idxStr = some i ∧ 0 ≤ i ∧ i < arr.length ∧ arr[i.toNat]? = some x := by
  simp only [arrayOp] at h
  (repeat' split at h) <;> simp_all

theorem arrayOp_patch_ok {ell : Bool} {val : Json} {idxStr : Bytes} {arr : List Json} {i : Int}
    (ha : atoi idxStr = some i) (h0 : 0 ≤ i) (h1 : i < arr.length) :
    arrayOp .patch ell val idxStr arr = (arr.set i.toNat val, .ok none) := by
  have h3 : i.toNat < arr.length := by omega
  simp [arrayOp, ha, h3]
  omega

theorem arrayOp_get_at {ell : Bool} {val : Json} {idxStr : Bytes} {arr : List Json} {i : Int} {x : Json}
    (ha : atoi idxStr = some i) (h0 : 0 ≤ i) (h1 : i < arr.length) (hx : arr[i.toNat]? = some x) :
    (arrayOp .get ell val idxStr arr).2 = .ok (some x) := by
  have h2 : ¬ (i < 0 ∨ (arr.length : Int) ≤ i ∨ (arr.length : Int) < i) := by omega
  simp [arrayOp, ha, hx, h2]


end CaddyModel.C12
