/-
C12 — lemmas and concrete instances for Wire.lean (request targets as net/http parses them).
-/
import CaddyModel.C12.Wire
import CaddyModel.C12.PathLemmas
import CaddyModel.C12.Witness

namespace CaddyModel.C12

theorem unescape_cons_plain {c : UInt8} (r : Bytes) (h : c ≠ pct) :
    unescapePath (c :: r) = (unescapePath r).map (c :: ·) := by
  match r with
  | [] => simp [unescapePath, h]
  | [d] => simp [unescapePath, h]; split <;> simp_all
  | a :: b :: r => simp [unescapePath, h]; split <;> simp_all

theorem unescape_pct {a b x y : UInt8} {r t : Bytes} (h1 : hexVal a = some x) (h2 : hexVal b = some y)
    (h3 : unescapePath r = some t) : unescapePath (pct :: a :: b :: r) = some ((x * 16 + y) :: t) := by
  simp [unescapePath, h1, h2, h3]

set_option maxRecDepth 20000 in
theorem hex_roundtrip_nat : ∀ n, n < 256 →
    hexVal (upperHex (UInt8.ofNat n / 16)) = some (UInt8.ofNat n / 16) ∧
    hexVal (upperHex (UInt8.ofNat n % 16)) = some (UInt8.ofNat n % 16) ∧
    (UInt8.ofNat n / 16) * 16 + UInt8.ofNat n % 16 = UInt8.ofNat n := by
  decide

theorem hex_roundtrip (c : UInt8) :
    hexVal (upperHex (c / 16)) = some (c / 16) ∧ hexVal (upperHex (c % 16)) = some (c % 16) ∧
    (c / 16) * 16 + c % 16 = c := by
  have h := hex_roundtrip_nat c.toNat c.toNat_lt
  simpa using h

theorem shouldEscape_pct : shouldEscape pct = true := by decide

/-- `unescape(escape(p)) = p` for every byte string -/
theorem unescape_escape_eq (p : Bytes) : unescapePath (escapePath p) = some p := by
  induction p with
  | nil => simp [escapePath, unescapePath]
  | cons c r ih =>
    unfold escapePath
    by_cases hs : shouldEscape c = true
    · simp only [hs, if_true]
      have h := hex_roundtrip c
      rw [unescape_pct h.1 h.2.1 ih, h.2.2]
    · have hc : c ≠ pct := by
        intro h; subst h; exact hs shouldEscape_pct
      simp only [hs]
      rw [if_neg (by simp), unescape_cons_plain _ hc, ih]
      rfl

/-- a world that accepts every configuration -/
def yesEnv : Env := ⟨fun _ => [], fun _ => true, fun _ => none⟩

/-- the running document {"apps":{"c12":{"x":{"y":2},"x/y":1}}} -/
def slashDoc : Json :=
  .obj [([97, 112, 112, 115], .obj [([99, 49, 50], .obj [([120], .obj [([121], .num [50])]), ([120, 47, 121], .num [49])])])]

def slashState : State := (serve yesEnv (wReq .post cfgPrefix (.val slashDoc)) initState).1

/-- "/config/apps/c12/x%2Fy" -/
def tEncSlash : Bytes := [47, 99, 111, 110, 102, 105, 103, 47, 97, 112, 112, 115, 47, 99, 49, 50, 47, 120, 37, 50, 70, 121]
/-- "/config/apps/c12/x/y" -/
def pSlash : Bytes := [47, 99, 111, 110, 102, 105, 103, 47, 97, 112, 112, 115, 47, 99, 49, 50, 47, 120, 47, 121]
/-- "/config%2Fapps" and its decoding "/config/apps" -/
def tEncSep : Bytes := [47, 99, 111, 110, 102, 105, 103, 37, 50, 70, 97, 112, 112, 115]
def wpApps : Bytes := [47, 99, 111, 110, 102, 105, 103, 47, 97, 112, 112, 115]
/-- "/%63onfig/apps" -/
def tEncFirst : Bytes := [47, 37, 54, 51, 111, 110, 102, 105, 103, 47, 97, 112, 112, 115]
/-- "/config/apps/%2e%2e/apps" and its decoding "/config/apps/../apps" -/
def tEncDots : Bytes := [47, 99, 111, 110, 102, 105, 103, 47, 97, 112, 112, 115, 47, 37, 50, 101, 37, 50, 101, 47, 97, 112, 112, 115]
def pDots : Bytes := [47, 99, 111, 110, 102, 105, 103, 47, 97, 112, 112, 115, 47, 46, 46, 47, 97, 112, 112, 115]
/-- "/config/apps/%zz" -/
def tBadEsc : Bytes := [47, 99, 111, 110, 102, 105, 103, 47, 97, 112, 112, 115, 47, 37, 122, 122]

end CaddyModel.C12
