/-
C12 — concurrent read–modify–write clients as a labelled transition system.

Every admin request is one atomic step (the handler holds `rawCfgMu` for all of
`readConfig` / `changeConfig`), so a concurrent execution is an interleaving of whole
requests: a *schedule* is the list of client numbers in the order their next request is
served.  A client alternates `GET p` (remember value and ETag) and
`PATCH p  f(value)  If-Match: <that ETag>`; whatever the answer, it goes back to reading.
-/
import CaddyModel.C12.Model

namespace CaddyModel.C12

/-- the ETag header value `"<path> <hash>"` -/
def mkEtag (p h : Bytes) : Bytes := quote :: (p ++ 32 :: h) ++ [quote]

/-- what a client remembers from its last GET: ETag path and the value it read -/
abbrev Held := Option (Bytes × Option Json)

structure Sys where
  s : State
  held : Nat → Held
  /-- acknowledged (200) conditional writes, oldest first: client and value written -/
  log : List (Nat × Json)

def upd (h : Nat → Held) (c : Nat) (v : Held) : Nat → Held := fun c' => if c' = c then v else h c'

def readReq (p : Bytes) : Req := ⟨.get, p, .empty, [], false, .json⟩

def casReq (env : Env) (p ep : Bytes) (out : Option Json) (v : Json) : Req :=
  ⟨.patch, p, .val v, mkEtag ep (env.hash out), false, .json⟩

/-- client `c` gets its next request served -/
def stepClient (env : Env) (p : Bytes) (f : Nat → Option Json → Json) (y : Sys) (c : Nat) : Sys :=
  match y.held c with
  | none =>
    match (serve env (readReq p) y.s).2 with
    | .okGet out ep => { y with held := upd y.held c (some (ep, out)) }
    | _ => y
  | some (ep, out) =>
    match serve env (casReq env p ep out (f c out)) y.s with
    | (s', .okWrite) => { s := s', held := upd y.held c none, log := y.log ++ [(c, f c out)] }
    | (s', _) => { y with s := s', held := upd y.held c none }

def runSched (env : Env) (p : Bytes) (f : Nat → Option Json → Json) (sched : List Nat) (y : Sys) : Sys :=
  sched.foldl (stepClient env p f) y

/-- each acknowledged write was computed from the value the previous acknowledged write left
    (the first one from `v0`); returns the value the chain ends with -/
def chain (f : Nat → Option Json → Json) : Json → List (Nat × Json) → Option Json
  | v, [] => some v
  | v, (c, w) :: r => if w = f c (some v) then chain f w r else none

end CaddyModel.C12
