/-
C12 — model of the admin config API as the code is:

* `access`  = `unsyncedConfigAccess` (admin.go), statement by statement: body decoding,
  `strings.Trim/Split`, the `...` suffix, the traversal loop with its three `switch`
  arms, the "array is the destination" special case (`i == len(parts)-2`), the five
  methods, index parsing and the per-method bounds.
  Go mutates `rawCfg` in place; the model returns the tree as it is after the call
  **also when the call fails**, so "an error leaves the tree alone" is a theorem
  (`error_pure`), not an artefact of a functional model.
* `change`  = `changeConfig` (caddy.go): If-Match parse + compare-and-swap on the hash of
  `GET parts[0]`, the mutation, re-encoding, the "unchanged" test, `indexConfigObjects`,
  the run step (abstract: accept/reject of the document with its `@id` fields stripped),
  `restoreOldCfg`, commit of `rawCfgJSON`/`rawCfgIndex`.
* `handleConfig`, `handleConfigID`, the mux dispatch and the internal redirect.

Not modelled (parameters / trusted): `encoding/json` (trees are decoded values; an
undecodable body is the token `Body.bad`), xxhash (`Env.hash`, assumed injective where a
theorem needs it), everything behind `unsyncedDecodeAndRun` except "accepted or rejected"
(`Env.accepts`), `net/http`'s ServeMux beyond "clean path, longest prefix".
-/
import CaddyModel.C12.Json

namespace CaddyModel.C12

/-! ### Go maps as association lists -/

abbrev Obj := List (Bytes × Json)

/-- `v[k]` with the comma-ok flag: `none` = key absent -/
def lookup (k : Bytes) : Obj → Option Json
  | [] => none
  | (k', v) :: r => if k = k' then some v else lookup k r

/-- byte-wise lexicographic `<` (the order `json.Marshal` sorts map keys in) -/
def bytesLt : Bytes → Bytes → Bool
  | [], [] => false
  | [], _ :: _ => true
  | _ :: _, [] => false
  | a :: as, b :: bs => if a < b then true else if b < a then false else bytesLt as bs

def insertSorted (k : Bytes) (v : Json) : Obj → Obj
  | [] => [(k, v)]
  | (k', v') :: r => if bytesLt k k' then (k, v) :: (k', v') :: r else (k', v') :: insertSorted k v r

/-- overwrite the value of an existing key (no-op when absent) -/
def replaceKey (k : Bytes) (v : Json) : Obj → Obj
  | [] => []
  | (k', v') :: r => if k = k' then (k, v) :: r else (k', v') :: replaceKey k v r

/-- `m[k] = v` -/
def setKey (k : Bytes) (v : Json) (m : Obj) : Obj :=
  if (lookup k m).isSome then replaceKey k v m else insertSorted k v m

/-- `delete(m, k)` -/
def eraseKey (k : Bytes) : Obj → Obj
  | [] => []
  | (k', v') :: r => if k = k' then eraseKey k r else (k', v') :: eraseKey k r

/-! ### strings -/

def slash : UInt8 := 47
def dots : Bytes := [46, 46, 46]          -- "..."
def idKey : Bytes := [64, 105, 100]       -- "@id"
def cfgKey : Bytes := [99, 111, 110, 102, 105, 103]   -- rawConfigKey = "config"

/-- `strings.Split(s, "/")` (always at least one element) -/
def splitSlash : Bytes → List Bytes
  | [] => [[]]
  | c :: r =>
    if c = slash then [] :: splitSlash r
    else match splitSlash r with
      | [] => [[c]]
      | p :: ps => (c :: p) :: ps

/-- `strings.Trim(s, "/")` -/
def trimSlash (s : Bytes) : Bytes :=
  ((s.dropWhile (· = slash)).reverse.dropWhile (· = slash)).reverse

def isDigit (c : UInt8) : Bool := 48 ≤ c && c ≤ 57

/-- value of a non-empty all-digit string -/
def digitsVal : Bytes → Nat → Option Nat
  | [], acc => some acc
  | c :: r, acc => if isDigit c then digitsVal r (acc * 10 + (c.toNat - 48)) else none

def unsignedVal (s : Bytes) : Option Nat :=
  if s.isEmpty then none else digitsVal s 0

/-- `strconv.Atoi` on a 64-bit platform: optional sign, decimal digits, range of `int` -/
def atoi (s : Bytes) : Option Int :=
  match s with
  | 45 :: r => match unsignedVal r with
    | some n => if n ≤ 9223372036854775808 then some (-(n : Int)) else none
    | none => none
  | 43 :: r => match unsignedVal r with
    | some n => if n ≤ 9223372036854775807 then some (n : Int) else none
    | none => none
  | _ => match unsignedVal s with
    | some n => if n ≤ 9223372036854775807 then some (n : Int) else none
    | none => none

/-! ### unsyncedConfigAccess -/

inductive Method where
  | get | post | put | patch | delete
deriving DecidableEq, Repr

inductive Err where
  | decode      -- "decoding request body"
  | noPath      -- "no traversable path"
  | badIndex    -- "invalid array index"
  | oob         -- "array index out of bounds"
  | notArray    -- "final element is not an array"
  | traversal   -- "invalid traversal path at"
  | keyExists   -- APIError 409 "key already exists"
  | keyMissing  -- APIError 404 "key does not exist"
deriving DecidableEq, Repr

/-- what one call of `unsyncedConfigAccess` returns: `ok out` (`out` = what was written to the
    `io.Writer`, only GET writes and even GET may write nothing), an error, or a Go run-time
    panic (index out of range; proved unreachable) -/
inductive Res where
  | ok (out : Option Json)
  | err (e : Err)
  | panic
deriving DecidableEq, Repr

/-- request body as `unsyncedConfigAccess` sees it -/
inductive Body where
  | empty               -- len(body) == 0: `val` stays nil
  | bad                 -- json.Unmarshal fails
  | val (j : Json)
deriving DecidableEq, Repr

/-- Go `x == nil` for an `any` read out of a map: key absent or JSON null -/
def isNil : Option Json → Bool
  | none => true
  | some .null => true
  | _ => false

/-- what `enc.Encode(v[part])` prints: an absent key reads as nil and prints `null` -/
def encodeOf : Option Json → Json
  | none => .null
  | some j => j

/-- `arrayDest`: the index check and `switch method` of the array-destination special case;
    returns the new contents of the slice handed to `set` (stored back under `v[part]`, or
    `v[partInt]` when the destination slice is an element of a slice) -/
def arrayOp (m : Method) (ell : Bool) (val : Json) (idxStr : Bytes) (arr : List Json) : List Json × Res :=
  if m = .post then
    if ell then
      match val with
      | .arr vs => (arr ++ vs, .ok none)
      | _ => (arr, .err .notArray)
    else (arr ++ [val], .ok none)
  else
    match atoi idxStr with
    | none => (arr, .err .badIndex)
    | some idx =>
      if idx < 0 ∨ (m ≠ .put ∧ idx ≥ arr.length) ∨ idx > arr.length then (arr, .err .oob)
      else
        match m with
        | .get =>
          match arr[idx.toNat]? with
          | some x => (arr, .ok (some x))
          | none => (arr, .panic)
        | .put => (arr.insertIdx idx.toNat val, .ok none)
        | .patch => if idx.toNat < arr.length then (arr.set idx.toNat val, .ok none) else (arr, .panic)
        | .delete => if idx.toNat < arr.length then (arr.eraseIdx idx.toNat, .ok none) else (arr, .panic)
        | .post => (arr, .ok none)

/-- the `if i == len(parts)-1` arm: `child = v[part]` (with presence) -/
def lastOp (m : Method) (ell : Bool) (val : Json) (part : Bytes) (kvs : Obj) (child : Option Json) : Json × Res :=
  match m with
  | .get => (.obj kvs, .ok (some (encodeOf child)))
  | .post =>
    match child with
    | some (.arr arr) =>
      if ell then
        match val with
        | .arr vs => (.obj (setKey part (.arr (arr ++ vs)) kvs), .ok none)
        | _ => (.obj kvs, .err .notArray)
      else (.obj (setKey part (.arr (arr ++ [val])) kvs), .ok none)
    | _ => (.obj (setKey part val kvs), .ok none)
  | .put => if child.isSome then (.obj kvs, .err .keyExists) else (.obj (setKey part val kvs), .ok none)
  | .patch => if child.isSome then (.obj (setKey part val kvs), .ok none) else (.obj kvs, .err .keyMissing)
  | .delete => if child.isSome then (.obj (eraseKey part kvs), .ok none) else (.obj kvs, .err .keyMissing)

/-- put the (possibly mutated) child back where it hangs: pointers are shared in Go, so a
    mutation below is visible from above -/
def inObj (part : Bytes) (kvs : Obj) (r : Json × Res) : Json × Res := (.obj (replaceKey part r.1 kvs), r.2)
/-- same, for a map freshly created by PUT (`v[part] = make(map[string]any)`) -/
def inNewObj (part : Bytes) (kvs : Obj) (r : Json × Res) : Json × Res := (.obj (setKey part r.1 kvs), r.2)
def inArr (i : Nat) (xs : List Json) (r : Json × Res) : Json × Res := (.arr (xs.set i r.1), r.2)
def inArrayDest (part : Bytes) (kvs : Obj) (r : List Json × Res) : Json × Res :=
  (.obj (replaceKey part (.arr r.1) kvs), r.2)
/-- same, for a destination slice that is itself an element of a slice (`v[partInt] = a`) -/
def inArrayElem (i : Nat) (xs : List Json) (r : List Json × Res) : Json × Res :=
  (.arr (xs.set i (.arr r.1)), r.2)

/-- `traverseLoop`: `parts[i:]` against `ptr`. Returns `ptr`'s tree afterwards and the result. -/
def trav (m : Method) (ell : Bool) (val : Json) : List Bytes → Json → Json × Res
  | [], node => (node, .ok none)                       -- loop ran off the end: `return nil`
  | part :: rest, .obj kvs =>
    match lookup part kvs, rest with
    | some (.arr arr), [idxStr] =>                      -- v[part].([]any) && i == len(parts)-2
      inArrayDest part kvs (arrayOp m ell val idxStr arr)
    | child, [] => lastOp m ell val part kvs child      -- i == len(parts)-1
    | child, _ :: _ =>
      if isNil child && m == .put then                  -- v[part] == nil && PUT: make the map
        inNewObj part kvs (trav m ell val rest (.obj []))
      else
        match child with
        | none => (.obj kvs, .err .traversal)           -- ptr = nil; the next iteration hits `default`
        | some c => inObj part kvs (trav m ell val rest c)
  | part :: rest, .arr xs =>
    match atoi part with
    | none => (.arr xs, .err .badIndex)
    | some i =>
      if i < 0 ∨ i ≥ xs.length then (.arr xs, .err .oob)
      else
        match xs[i.toNat]?, rest with
        | none, _ => (.arr xs, .panic)
        | some (.arr arr), [idxStr] =>                    -- v[partInt].([]any) && i == len(parts)-2
          inArrayElem i.toNat xs (arrayOp m ell val idxStr arr)
        | some c, _ => inArr i.toNat xs (trav m ell val rest c)
  | _ :: _, node => (node, .err .traversal)             -- `default:` nil, bool, number, string

/-- `parts` and the `ellipses` flag -/
def pathParts (path : Bytes) : List Bytes × Bool :=
  if (splitSlash (trimSlash path)).getLast? = some dots
  then ((splitSlash (trimSlash path)).dropLast, true)
  else (splitSlash (trimSlash path), false)

def bodyVal : Body → Json
  | .val j => j
  | _ => .null

/-- `unsyncedConfigAccess(method, path, body, out)` on `rawCfg = root` -/
def access (m : Method) (path : Bytes) (body : Body) (root : Json) : Json × Res :=
  if body = .bad then (root, .err .decode)
  else if trimSlash path = [] then (root, .err .noPath)
  else trav m (pathParts path).2 (bodyVal body) (pathParts path).1 root

/-! ### `@id` index, meta-field stripping -/

def dot : Bytes := [46]
def dotdot : Bytes := [46, 46]

/-- one element of `path.Clean` on a rooted path (stack kept reversed) -/
def cleanStep (st : List Bytes) (seg : Bytes) : List Bytes :=
  if seg = [] ∨ seg = dot then st else if seg = dotdot then st.drop 1 else seg :: st

def renderPath : List Bytes → Bytes
  | [] => [slash]
  | segs => segs.flatMap (fun p => slash :: p)

/-- `path.Clean` of a path that starts with "/" -/
def cleanRooted (s : Bytes) : Bytes := renderPath ((splitSlash s).foldl cleanStep []).reverse

/-- `path.Join(a, b)` for rooted `a` -/
def pathJoin (a b : Bytes) : Bytes := cleanRooted (a ++ slash :: b)

/-- `strconv.Itoa` for a non-negative number (`fuel` bounds the number of digits) -/
def natDigitsF : Nat → Nat → Bytes
  | 0, _ => []
  | fuel + 1, n =>
    if n < 10 then [(48 + n).toUInt8] else natDigitsF fuel (n / 10) ++ [(48 + n % 10).toUInt8]

def natDigits (n : Nat) : Bytes := natDigitsF (n + 1) n

/-- the index key of an `@id` value: strings as they are, numbers through
    `strconv.FormatFloat(f, 'f', -1, 64)` — plain decimal notation, which for the number
    texts of this model (plain decimals `json.Marshal` prints unchanged) is the text itself —
    anything else is the "must be a string or number" error -/
def idText : Json → Option Bytes
  | .str s => some s
  | .num t => some t
  | _ => none

abbrev Index := List (Bytes × Bytes)

def append2 : Option Index → Option Index → Option Index
  | some a, some b => some (a ++ b)
  | _, _ => none

def consIdx (id : Option Bytes) (p : Bytes) : Option Index → Option Index
  | some r => match id with
    | some t => some ((t, p) :: r)
    | none => none
  | none => none

mutual
/-- `indexConfigObjects(ptr, configPath, index)`; `none` = it returned an error. A Go map
    keeps one path per id (iteration order decides which); the model keeps every pair. -/
def indexJ : Json → Bytes → Option Index
  | .obj kvs, p => indexO kvs p
  | .arr xs, p => indexL xs 0 p
  | _, _ => some []
def indexO : Obj → Bytes → Option Index
  | [], _ => some []
  | (k, v) :: r, p =>
    if k = idKey then consIdx (idText v) p (indexO r p)
    else append2 (indexJ v (pathJoin p k)) (indexO r p)
def indexL : List Json → Nat → Bytes → Option Index
  | [], _, _ => some []
  | x :: xs, i, p => append2 (indexJ x (pathJoin p (natDigits i))) (indexL xs (i + 1) p)
end

mutual
/-- the document with every `@id` member removed (what `RemoveMetaFields` is meant to produce) -/
def stripIds : Json → Json
  | .arr xs => .arr (stripIdsL xs)
  | .obj kvs => .obj (stripIdsO kvs)
  | j => j
def stripIdsL : List Json → List Json
  | [] => []
  | x :: xs => stripIds x :: stripIdsL xs
def stripIdsO : Obj → Obj
  | [] => []
  | (k, v) :: r => if k = idKey then stripIdsO r else (k, stripIds v) :: stripIdsO r
end

/-- does this member make the *textual* `idRegexp` removal produce broken JSON?
    (`"@id"` with a string containing `"`, whose encoding `\"` ends the regexp's lazy `".*"`
    early.)  Two shapes are outside the model's domain because the textual removal yields
    *valid but different* JSON, which a tree-level model cannot express: an `@id` number in
    exponent form — `-?[0-9]+(\.[0-9]+)?` eats only the mantissa, `{"a":0.0001,"@id":1e+21}`
    is loaded as `{"a":0.0001e+21}` (after anything but a plain number the load fails) — and
    keys that contain `"@id`, inside which the regexp also fires (`{"q\"@id":1,"r":2}` is
    loaded as `{"q\"r":2}`).  The driver answers `bad-op` for both. -/
def memberBreaks (k : Bytes) (v : Json) : Bool :=
  if k = idKey then
    match v with
    | .str s => s.contains 34
    | _ => false
  else false

mutual
def stripBreaks : Json → Bool
  | .arr xs => stripBreaksL xs
  | .obj kvs => stripBreaksO kvs
  | _ => false
def stripBreaksL : List Json → Bool
  | [] => false
  | x :: xs => stripBreaks x || stripBreaksL xs
def stripBreaksO : Obj → Bool
  | [] => false
  | (k, v) :: r => memberBreaks k v || stripBreaks v || stripBreaksO r
end

/-! ### changeConfig -/

structure Env where
  /-- hex of the xxhash of what GET wrote (`none` = nothing was written) -/
  hash : Option Json → Bytes
  /-- does `run` accept the decoded config (all apps provision and start)? -/
  accepts : Json → Bool
  /-- the registered config adapter (`caddyconfig.GetAdapter(name).Adapt`): `none` = it
      returned an error -/
  adapt : Body → Option Json

structure State where
  rawCfg : Json                  -- Go: `rawCfg`, a map that normally has the one key "config"
  rawCfgJSON : Option Json       -- `none`: len(rawCfgJSON) == 0 (nothing loaded yet)
  index : Index                  -- rawCfgIndex
  running : Option Json          -- the (stripped) document the apps were last started with
  loads : Nat                    -- how many times a config was started
deriving DecidableEq, Repr

def initState : State := ⟨.obj [(cfgKey, .null)], none, [], none, 0⟩

inductive ChangeRes where
  | ok
  | same                  -- errSameConfig
  | ifMatchQuote          -- 400 "expect quoted string"
  | ifMatchFormat         -- 400 "expect format"
  | ifMatchAccess (e : Err)   -- the GET for the hash failed (plain error)
  | precondition          -- 412
  | access (e : Err)
  | index                 -- 500 "indexing config"
  | load                  -- "loading new config"
  | panic
deriving DecidableEq, Repr

def isSpace (c : UInt8) : Bool := c = 32 || (9 ≤ c && c ≤ 13)

/-- `strings.Fields` on an ASCII string -/
def fieldsGo : Bytes → Bytes → List Bytes
  | [], cur => if cur.isEmpty then [] else [cur.reverse]
  | c :: r, cur =>
    if isSpace c then (if cur.isEmpty then fieldsGo r [] else cur.reverse :: fieldsGo r [])
    else fieldsGo r (c :: cur)

def quote : UInt8 := 34

/-- `rawCfg[rawConfigKey]` -/
def cfgOf : Json → Json
  | .obj kvs => encodeOf (lookup cfgKey kvs)
  | _ => .null

/-- `rawCfg[rawConfigKey] = v` -/
def setCfg (v : Json) : Json → Json
  | .obj kvs => .obj (setKey cfgKey v kvs)
  | j => j

/-- the `config` key is present in `rawCfg` (`_, hadCfgKey := rawCfg[rawConfigKey]`) -/
def hasCfgKey : Json → Bool
  | .obj kvs => (lookup cfgKey kvs).isSome
  | _ => false

/-- `delete(rawCfg, rawConfigKey)` -/
def eraseCfg : Json → Json
  | .obj kvs => .obj (eraseKey cfgKey kvs)
  | j => j

/-- `restoreOldCfg`: if the key was not there before the mutation (after `DELETE /config/`)
    it is removed again; otherwise it gets the last loaded configuration back.
    `s` is the state before the mutation, `root` the mutated tree. -/
def restore (s : State) (root : Json) : State :=
  { s with rawCfg := if hasCfgKey s.rawCfg then setCfg (encodeOf s.rawCfgJSON) root else eraseCfg root }

/-- the part of `changeConfig` after a successful mutation that produced `root` -/
def commit (env : Env) (force : Bool) (s : State) (root : Json) : State × ChangeRes :=
  if !force && s.rawCfgJSON == some (cfgOf root) then ({ s with rawCfg := root }, .same)
  else
    match indexJ (cfgOf root) (slash :: cfgKey) with
    | none => (restore s root, .index)
    | some idx =>
      if stripBreaks (cfgOf root) || !env.accepts (stripIds (cfgOf root)) then (restore s root, .load)
      else ({ rawCfg := root, rawCfgJSON := some (cfgOf root), index := idx,
              running := some (stripIds (cfgOf root)), loads := s.loads + 1 }, .ok)

/-- the mutation and what follows -/
def mutate (env : Env) (m : Method) (path : Bytes) (body : Body) (force : Bool) (s : State) : State × ChangeRes :=
  match access m path body s.rawCfg with
  | (root, .err e) => ({ s with rawCfg := root }, .access e)
  | (root, .panic) => ({ s with rawCfg := root }, .panic)
  | (root, .ok _) => commit env force s root

/-- `changeConfig(method, path, input, ifMatchHeader, forceReload)`, one atomic step
    (it holds `rawCfgMu` from start to end) -/
def change (env : Env) (m : Method) (path : Bytes) (body : Body) (ifMatch : Bytes) (force : Bool)
    (s : State) : State × ChangeRes :=
  if ifMatch = [] then mutate env m path body force s
  else if ifMatch.length < 2 ∨ ifMatch.head? ≠ some quote ∨ ifMatch.getLast? ≠ some quote then (s, .ifMatchQuote)
  else
    match fieldsGo ((ifMatch.drop 1).dropLast) [] with
    | [p, h] =>
      match access .get p .empty s.rawCfg with
      | (_, .err e) => (s, .ifMatchAccess e)
      | (_, .panic) => (s, .panic)
      | (_, .ok out) => if env.hash out ≠ h then (s, .precondition) else mutate env m path body force s
    | _ => (s, .ifMatchFormat)

/-! ### HTTP layer: mux, handleConfig, handleConfigID -/

inductive HMethod where
  | get | post | put | patch | delete | other
deriving DecidableEq, Repr

/-- the Content-Type header, as far as the two handlers that look at it distinguish values
    (`handleConfig`: contains "/json"; `adaptByContentType`: empty / `mime.ParseMediaType`
    fails / ends in "/json" / no slash / adapter name after the slash) -/
inductive CT where
  | none          -- no header
  | json          -- "application/json"
  | jsonParams    -- "application/json; charset=utf-8"
  | jsonx         -- "application/jsonx": contains "/json" but does not end in it
  | plain         -- "text/plain": adapter name "plain" (not registered)
  | noSlash       -- "json": parses, no slash
  | invalid       -- "text/plain; charset": mime.ParseMediaType fails
  | adapter       -- "application/<name of the registered adapter>"
deriving DecidableEq, Repr

def CT.containsJSON : CT → Bool
  | .json | .jsonParams | .jsonx => true
  | _ => false

structure Req where
  method : HMethod
  path : Bytes
  body : Body
  ifMatch : Bytes
  force : Bool        -- Cache-Control: must-revalidate
  ct : CT             -- Content-Type
deriving DecidableEq, Repr

/-- `strings.Contains(ct, "/json")`: what `handleConfig` requires of a request with a body -/
def Req.ctJSON (r : Req) : Bool := r.ct.containsJSON

inductive Fail where
  | access (e : Err)      -- by the traversal (400 on GET; 409/404/500 on writes)
  | ctype                 -- 400 unacceptable content-type
  | method                -- 405
  | ifMatchQuote | ifMatchFormat   -- 400
  | ifMatchAccess (e : Err)        -- 500
  | precondition          -- 412
  | index                 -- 500
  | load                  -- 500
  | idMissing             -- 400 "request path is missing object ID"
  | idMalformed           -- 400 "malformed object path"
  | idUnknown             -- 404 "unknown object ID"
  | notFound              -- mux: no handler (outside /config/, /id/, /load, /adapt)
  | ctInvalid             -- 400 "invalid Content-Type" (mime.ParseMediaType)
  | ctMalformed           -- 400 "malformed Content-Type" (no slash)
  | adapterUnknown        -- 400 "unrecognized config adapter"
  | adaptFailed           -- 400 "adapting config using … adapter"
  | adaptEncode           -- 500 /adapt: the result is not JSON (json.RawMessage fails to encode)
  | viaLoad (f : Fail)    -- 400 "loading config: <the error of changeConfig>"
  | panic
deriving DecidableEq, Repr

inductive Resp where
  | okGet (out : Option Json) (etagPath : Bytes)
  | okWrite
  | redirect                 -- 301 from the ServeMux (unclean path, or "/config" without slash)
  | okAdapt (result : Json)  -- /adapt: 200 {"result": …}
  | fail (f : Fail)
  /-- the `@id` is carried by more than one object: which one `/id/` reaches depends on Go's
      map iteration order (not a function of the history) -/
  | ambiguous
deriving DecidableEq, Repr

def statusOf : Fail → Nat
  | .access .keyExists => 409
  | .access .keyMissing => 404
  | .access _ => 500
  | .ctype => 400
  | .method => 405
  | .ifMatchQuote => 400
  | .ifMatchFormat => 400
  | .ifMatchAccess _ => 500
  | .precondition => 412
  | .index => 500
  | .load => 500
  | .idMissing => 400
  | .idMalformed => 400
  | .idUnknown => 404
  | .notFound => 404
  | .ctInvalid => 400
  | .ctMalformed => 400
  | .adapterUnknown => 400
  | .adaptFailed => 400
  | .adaptEncode => 500
  | .viaLoad _ => 400
  | .panic => 0

def toMethod : HMethod → Option Method
  | .post => some .post
  | .put => some .put
  | .patch => some .patch
  | .delete => some .delete
  | _ => none

def changeResp : ChangeRes → Resp
  | .ok => .okWrite
  | .same => .okWrite                    -- handleConfig swallows errSameConfig
  | .ifMatchQuote => .fail .ifMatchQuote
  | .ifMatchFormat => .fail .ifMatchFormat
  | .ifMatchAccess e => .fail (.ifMatchAccess e)
  | .precondition => .fail .precondition
  | .access e => .fail (.access e)
  | .index => .fail .index
  | .load => .fail .load
  | .panic => .fail .panic

/-- `handleConfig` with `r.URL.Path = path` -/
def handleConfig (env : Env) (r : Req) (path : Bytes) (s : State) : State × Resp :=
  match r.method with
  | .get =>
    match access .get path .empty s.rawCfg with
    | (_, .ok out) => (s, .okGet out path)
    | (_, .err e) => (s, .fail (.access e))
    | (_, .panic) => (s, .fail .panic)
  | .other => (s, .fail .method)
  | hm =>
    match toMethod hm with
    | none => (s, .fail .method)
    | some m =>
      if m ≠ .delete ∧ !r.ctJSON then (s, .fail .ctype)
      else (fun (x : State × ChangeRes) => (x.1, changeResp x.2))
        (change env m path (if m = .delete then .empty else r.body) r.ifMatch r.force s)

def idSeg : Bytes := [105, 100]   -- "id"

/-- mux's `cleanPath`: `path.Clean`, keeping a trailing slash -/
def muxClean (p : Bytes) : Bytes :=
  if p.getLast? = some slash ∧ cleanRooted p ≠ [slash] then cleanRooted p ++ [slash] else cleanRooted p

inductive Route where
  | config | id | load | adapt | redirect | none
deriving DecidableEq, Repr

def cfgPrefix : Bytes := slash :: cfgKey ++ [slash]   -- "/config/"
def idPrefix : Bytes := slash :: idSeg ++ [slash]     -- "/id/"

def loadPath : Bytes := [47, 108, 111, 97, 100]          -- "/load"
def adaptPath : Bytes := [47, 97, 100, 97, 112, 116]    -- "/adapt"

/-- `ServeMux` for the patterns that matter here: "/config/", "/id/", and the exact paths
    "/load" and "/adapt" of the `admin.api.load` module (caddyconfig/load.go) -/
def route (p : Bytes) : Route :=
  if p.head? ≠ some slash then .none
  else if muxClean p ≠ p then .redirect
  else if p = slash :: cfgKey ∨ p = slash :: idSeg then .redirect
  else if cfgPrefix.isPrefixOf p then .config
  else if idPrefix.isPrefixOf p then .id
  else if p = loadPath then .load
  else if p = adaptPath then .adapt
  else .none

inductive IdRes where
  | to (path : Bytes)
  | fail (f : Fail)
  | ambiguous
deriving DecidableEq, Repr

def joinSlash : List Bytes → Bytes
  | [] => []
  | [p] => p
  | p :: ps => p ++ slash :: joinSlash ps

def candidates (id : Bytes) (idx : Index) : List Bytes := (idx.filter (·.1 = id)).map (·.2)

/-- `path.Join` drops a trailing slash; the config as a whole is only served at "/config/" -/
def rootSlash (p : Bytes) : Bytes := if p = slash :: cfgKey then p ++ [slash] else p

/-- `handleConfigID`: the rewritten `r.URL.Path` -/
def handleConfigID (idx : Index) (path : Bytes) : IdRes :=
  match splitSlash path with
  | p0 :: p1 :: p2 :: rest =>
    if p2 = [] then .fail .idMissing
    else if p0 ≠ [] ∨ p1 ≠ idSeg then .fail .idMalformed
    else
      match candidates p2 idx with
      | [] => .fail .idUnknown
      | [expanded] => .to (rootSlash (cleanRooted (expanded ++ slash :: joinSlash rest)))
      | _ => .ambiguous
  | _ => .fail .idMissing

/-! ### caddyconfig/load.go: /load and /adapt -/

inductive Adapted where
  | body (b : Body)
  | fail (f : Fail)
deriving DecidableEq, Repr

/-- `adaptByContentType(contentType, body)` -/
def adaptByContentType (env : Env) (ct : CT) (b : Body) : Adapted :=
  match ct with
  | .none => .body b                       -- assume JSON as the default
  | .invalid => .fail .ctInvalid
  | .json | .jsonParams => .body b         -- strings.HasSuffix(ct, "/json")
  | .noSlash => .fail .ctMalformed
  | .jsonx | .plain => .fail .adapterUnknown
  | .adapter =>
    match env.adapt b with
    | some j => .body (.val j)
    | none => .fail .adaptFailed

/-- what `handleLoad` makes of the outcome of `caddy.Load`: errSameConfig is "not really an
    error"; everything else becomes APIError 400 "loading config: …" -/
def loadResp : ChangeRes → Resp
  | .ok => .okWrite
  | .same => .okWrite
  | c =>
    match changeResp c with
    | .fail f => .fail (.viaLoad f)
    | r => r

/-- `adminLoad.handleLoad`: `caddy.Load(body, forceReload)` =
    `changeConfig(POST, "/config", body, "", forceReload)` — no Content-Type requirement,
    no If-Match -/
def handleLoad (env : Env) (r : Req) (s : State) : State × Resp :=
  if r.method ≠ .post then (s, .fail .method)
  else
    match adaptByContentType env r.ct r.body with
    | .fail f => (s, .fail f)
    | .body b => (fun (x : State × ChangeRes) => (x.1, loadResp x.2)) (change env .post (slash :: cfgKey) b [] r.force s)

/-- `adminLoad.handleAdapt`: adapts and answers with the result; touches nothing -/
def handleAdapt (env : Env) (r : Req) (s : State) : State × Resp :=
  if r.method ≠ .post then (s, .fail .method)
  else
    match adaptByContentType env r.ct r.body with
    | .fail f => (s, .fail f)
    | .body (.val j) => (s, .okAdapt j)
    | .body _ => (s, .fail .adaptEncode)

/-- `adminHandler.serveHTTP` → mux → handler, including the one internal redirect of `/id/` -/
def serve (env : Env) (r : Req) (s : State) : State × Resp :=
  match route r.path with
  | .none => (s, .fail .notFound)
  | .redirect => (s, .redirect)
  | .config => handleConfig env r r.path s
  | .load => handleLoad env r s
  | .adapt => handleAdapt env r s
  | .id =>
    match handleConfigID s.index r.path with
    | .fail f => (s, .fail f)
    | .ambiguous => (s, .ambiguous)
    | .to p =>
      match route p with
      | .config => handleConfig env r p s
      | .redirect => (s, .redirect)
      | _ => (s, .fail .notFound)     -- an index entry outside /config/: not in this model's domain

/-! ### cmd/commandfuncs.go: `caddy reload` -/

/-- the `--adapter` flag of `caddy reload` for a config file named `*.json` -/
inductive CliAdapter where
  | none        -- no flag
  | registered  -- the name of the registered adapter
  | unknown     -- any other name: "unrecognized config adapter"
deriving DecidableEq, Repr

/-- `cmd.LoadConfig(file, adapter)`: what is sent, or `none` = the command fails before it sends
    anything (unknown adapter; the adapter fails; no adapter and a non-empty file that is not
    JSON). An empty file without adapter is sent as it is. -/
def cliLoadConfig (env : Env) (file : Body) (a : CliAdapter) : Option Body :=
  match a with
  | .unknown => none
  | .registered => (env.adapt file).map .val
  | .none =>
    match file with
    | .bad => none
    | b => some b

inductive CliRes where
  | ok                    -- exit code 0
  | failedBeforeSend      -- exit code 1, nothing was sent
  | refused (f : Fail)    -- exit code 1, "caddy responded with error: HTTP …"
deriving DecidableEq, Repr

/-- `DetermineAdminAPIAddress` without --address unmarshals the (adapted) config into
    `struct{ Admin AdminConfig }` to look for admin.listen: that fails for a document that is
    neither an object nor null (an empty file is not looked at) -/
def cliAddressFound (addressGiven : Bool) (body : Body) : Bool :=
  addressGiven ||
  match body with
  | .val (.obj _) => true
  | .val .null => true
  | .val _ => false
  | _ => true

/-- `cmdReload`: load (and adapt) the file, find the instance (`DetermineAdminAPIAddress`:
    --address, else the file's admin.listen, else `DefaultAdminListen` — an address, not part of
    this model), and `AdminAPIRequest(POST, "/load")` with `Content-Type: application/json`
    and, with --force, `Cache-Control: must-revalidate` -/
def cliReload (env : Env) (file : Body) (a : CliAdapter) (force addressGiven : Bool) (s : State) : State × CliRes :=
  match cliLoadConfig env file a with
  | none => (s, .failedBeforeSend)
  | some body =>
    if !cliAddressFound addressGiven body then (s, .failedBeforeSend) else
    (fun (x : State × Resp) =>
      (x.1, match x.2 with
        | .okWrite => CliRes.ok
        | .fail f => .refused f
        | _ => .refused .notFound))
      (serve env ⟨.post, loadPath, body, [], force, .json⟩ s)

/-! ### caddy.go finishSettingUp: config loaders -/

/-- `runLoadedConfig(config)`: a config pulled from the loader named by admin.config.load is
    applied with `changeConfig(POST, "/config", config, "", false)` — from a goroutine of the
    lifecycle, under the same write lock as any request -/
def pulledConfig (env : Env) (config : Body) (s : State) : State × ChangeRes :=
  change env .post (slash :: cfgKey) config [] false s

end CaddyModel.C12
