/-
C12 — adapter warnings on POST /load and POST /adapt (caddyconfig/load.go).

`adaptByContentType` hands back the adapter's warnings. `handleAdapt` puts them into the answer
(`{"warnings": […], "result": …}`). `handleLoad` keeps them until `caddy.Load` has succeeded and only then writes them to the
response body (/repo bbbf7b6). Before that repair it wrote them as soon as the adaptation had
succeeded — before `caddy.Load` ran: the first `Write` committed the status line to 200, so a
rejected load was answered "200" with the error appended as a second JSON value
(`loadStatusSeenOld`, kept for `rejected_load_is_reported_old_code_fails`).
-/
import CaddyModel.C12.Model

namespace CaddyModel.C12

/-- the adapter has warnings for this request: it went through a registered adapter, the
    adaptation succeeded, and the adapter had something to say about the body (`warns`) -/
def adapterWarned (env : Env) (warns : Body → Bool) (r : Req) : Bool :=
  r.method == .post && r.ct == .adapter && (env.adapt r.body).isSome && warns r.body

/-- `handleLoad`: warnings reach the response only once `caddy.Load` has succeeded -/
def warnsWritten (env : Env) (warns : Body → Bool) (r : Req) (s : State) : Bool :=
  adapterWarned env warns r && (handleLoad env r s).2 == .okWrite

def respStatus : Resp → Nat
  | .fail f => statusOf f
  | .redirect => 301
  | .ambiguous => 0
  | _ => 200

/-- the status line the client of `POST /load` reads: nothing is written before the outcome of
    the load is known, so it is the status of the outcome -/
def loadStatusSeen (env : Env) (r : Req) (s : State) : Nat := respStatus (handleLoad env r s).2

/-- the code before /repo bbbf7b6: warnings were written (and with them the status line 200)
    before `caddy.Load` ran -/
def loadStatusSeenOld (env : Env) (warns : Body → Bool) (r : Req) (s : State) : Nat :=
  if adapterWarned env warns r then 200 else respStatus (handleLoad env r s).2

theorem statusOf_ne_200 (f : Fail) : statusOf f ≠ 200 := by
  cases f with
  | access e => cases e <;> decide
  | ifMatchAccess e => simp [statusOf]
  | viaLoad g => simp [statusOf]
  | _ => decide

end CaddyModel.C12
