/-
C12 — adapter warnings on POST /load and POST /adapt (caddyconfig/load.go).

`adaptByContentType` hands back the adapter's warnings. `handleAdapt` puts them into the answer
(`{"warnings": […], "result": …}`). `handleLoad` WRITES them to the response body as soon as the
adaptation has succeeded — before `caddy.Load` runs. The first `Write` commits the status line to
200, so whatever `caddy.Load` answers afterwards, the client reads "200": an error is only
appended to the body as a second JSON value (`handleError`'s `WriteHeader` comes too late).
-/
import CaddyModel.C12.Model

namespace CaddyModel.C12

/-- warnings reach the response: the request went through a registered adapter, the adaptation
    succeeded, and the adapter had something to say about the body (`warns`) -/
def warnsWritten (env : Env) (warns : Body → Bool) (r : Req) : Bool :=
  r.method == .post && r.ct == .adapter && (env.adapt r.body).isSome && warns r.body

def respStatus : Resp → Nat
  | .fail f => statusOf f
  | .redirect => 301
  | .ambiguous => 0
  | _ => 200

/-- the status line the client of `POST /load` reads -/
def loadStatusSeen (env : Env) (warns : Body → Bool) (r : Req) (s : State) : Nat :=
  if warnsWritten env warns r then 200 else respStatus (handleLoad env r s).2

theorem statusOf_ne_200 (f : Fail) : statusOf f ≠ 200 := by
  cases f with
  | access e => cases e <;> decide
  | ifMatchAccess e => simp [statusOf]
  | viaLoad g => simp [statusOf]
  | _ => decide

end CaddyModel.C12
