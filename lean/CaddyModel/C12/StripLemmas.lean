/-
C12 — lemmas about `stripIds` (the tree-level meaning of `RemoveMetaFields`).
-/
import CaddyModel.C12.PathLemmas

namespace CaddyModel.C12

mutual
/-- no member named `@id` anywhere in the tree -/
def noIds : Json → Bool
  | .arr xs => noIdsL xs
  | .obj kvs => noIdsO kvs
  | _ => true
def noIdsL : List Json → Bool
  | [] => true
  | x :: xs => noIds x && noIdsL xs
def noIdsO : Obj → Bool
  | [] => true
  | (k, v) :: r => k != idKey && noIds v && noIdsO r
end

mutual
theorem stripIds_noIds : ∀ j : Json, noIds (stripIds j) = true
  | .null => by simp [stripIds, noIds]
  | .bool _ => by simp [stripIds, noIds]
  | .num _ => by simp [stripIds, noIds]
  | .str _ => by simp [stripIds, noIds]
  | .arr xs => by simp [stripIds, noIds, stripIdsL_noIds xs]
  | .obj kvs => by simp [stripIds, noIds, stripIdsO_noIds kvs]
theorem stripIdsL_noIds : ∀ l : List Json, noIdsL (stripIdsL l) = true
  | [] => by simp [stripIdsL, noIdsL]
  | x :: xs => by simp [stripIdsL, noIdsL, stripIds_noIds x, stripIdsL_noIds xs]
theorem stripIdsO_noIds : ∀ l : Obj, noIdsO (stripIdsO l) = true
  | [] => by simp [stripIdsO, noIdsO]
  | (k, v) :: r => by
    unfold stripIdsO
    split
    · exact stripIdsO_noIds r
    · next hk => simp [noIdsO, hk, stripIds_noIds v, stripIdsO_noIds r]
end

mutual
theorem stripIds_of_noIds : ∀ j : Json, noIds j = true → stripIds j = j
  | .null, _ => by simp [stripIds]
  | .bool _, _ => by simp [stripIds]
  | .num _, _ => by simp [stripIds]
  | .str _, _ => by simp [stripIds]
  | .arr xs, h => by simp [noIds] at h; simp [stripIds, stripIdsL_of_noIds xs h]
  | .obj kvs, h => by simp [noIds] at h; simp [stripIds, stripIdsO_of_noIds kvs h]
theorem stripIdsL_of_noIds : ∀ l : List Json, noIdsL l = true → stripIdsL l = l
  | [], _ => by simp [stripIdsL]
  | x :: xs, h => by
    simp [noIdsL] at h
    simp [stripIdsL, stripIds_of_noIds x h.1, stripIdsL_of_noIds xs h.2]
theorem stripIdsO_of_noIds : ∀ l : Obj, noIdsO l = true → stripIdsO l = l
  | [], _ => by simp [stripIdsO]
  | (k, v) :: r, h => by
    simp [noIdsO] at h
    simp [stripIdsO, h.1.1, stripIds_of_noIds v h.1.2, stripIdsO_of_noIds r h.2]
end

theorem stripIds_idem (j : Json) : stripIds (stripIds j) = stripIds j :=
  stripIds_of_noIds _ (stripIds_noIds j)

end CaddyModel.C12
