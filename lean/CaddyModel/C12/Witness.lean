/-
C12 — proved counter-examples: clauses of the property that the code as it is does NOT
satisfy at full strength.  Each is a concrete, kernel-evaluated history; the same
histories are exported as protocol lines (`Driver.witnessLines`) and replayed on the
real handler on every run.
-/
import CaddyModel.C12.PathLemmas

namespace CaddyModel.C12

/-- a world in which the apps accept only the empty configuration -/
def wEnv : Env := ⟨fun _ => [], fun j => j == .null, fun _ => none⟩

def cfgSlash : Bytes := cfgPrefix     -- "/config/"

def wReq (m : HMethod) (p : Bytes) (b : Body) : Req := ⟨m, p, b, [], false, .json⟩

/-- state after `DELETE /config/` on a fresh process: the Go map `rawCfg` has no "config" key -/
def wDeleted : State := (serve wEnv (wReq .delete cfgSlash .empty) initState).1

/-- `restoreOldCfg` as it was before /repo's fix: it always stored the old configuration under
    the `config` key, also when `DELETE /config/` had removed that key -/
def restoreOld (s : State) (root : Json) : State :=
  { s with rawCfg := setCfg (encodeOf s.rawCfgJSON) root }

/-- **the old code let a rejected request change something** (non-vacuity of
    `rejected_changes_nothing`): after `DELETE /config/` the Go map has no `config` key; the
    old restore re-created it with a nil value — `GET /config/` read `null` either way, but a
    following `PUT /config/` was answered 409 instead of 200. The restore of the current code
    removes the key again. -/
theorem rejected_changes_nothing_old_code_fails :
    wDeleted.rawCfg = .obj [] ∧
    restoreOld wDeleted (.obj [(cfgKey, .bool true)]) ≠ wDeleted ∧
    restore wDeleted (.obj [(cfgKey, .bool true)]) = wDeleted ∧
    (serve wEnv (wReq .put cfgSlash (.val (.bool true))) wDeleted) = (wDeleted, .fail .load) := by
  decide

/-- `{"config":{"a":[[1,2]]}}` -/
def wNested : Json := .obj [(cfgKey, .obj [([97], .arr [.arr [.num [49], .num [50]]])])]
def wNestedPath : Bytes := [47, 99, 111, 110, 102, 105, 103, 47, 97, 47, 48, 47, 49]   -- "/config/a/0/1"

/-- `traverseLoop` as it was before /repo's fix: the array-destination block could only be
    entered from a map (`v[part].([]any)`); the `[]any` arm just stepped into the element -/
def travOld (m : Method) (ell : Bool) (val : Json) : List Bytes → Json → Json × Res
  | [], node => (node, .ok none)
  | part :: rest, .obj kvs =>
    match lookup part kvs, rest with
    | some (.arr arr), [idxStr] => inArrayDest part kvs (arrayOp m ell val idxStr arr)
    | child, [] => lastOp m ell val part kvs child
    | child, _ :: _ =>
      if isNil child && m == .put then inNewObj part kvs (travOld m ell val rest (.obj []))
      else
        match child with
        | none => (.obj kvs, .err .traversal)
        | some c => inObj part kvs (travOld m ell val rest c)
  | part :: rest, .arr xs =>
    match atoi part with
    | none => (.arr xs, .err .badIndex)
    | some i =>
      if i < 0 ∨ i ≥ xs.length then (.arr xs, .err .oob)
      else
        match xs[i.toNat]? with
        | none => (.arr xs, .panic)
        | some c => inArr i.toNat xs (travOld m ell val rest c)
  | _ :: _, node => (node, .err .traversal)

def wNestedParts : List Bytes := (pathParts wNestedPath).1     -- ["config", "a", "0", "1"]

/-- **the old code did not return every value** (non-vacuity of `get_returns_every_value`):
    the element `2` of the inner array of `{"a":[[1,2]]}` is named by `/config/a/0/1`, but the
    old `[]any` arm only stepped into elements, ran off the end of the path and returned `nil`
    having written nothing (HTTP: 200 with an empty body and the ETag of the empty string).
    The current code returns `2`. -/
theorem get_is_lookup_old_code_fails :
    sget wNestedParts wNested = some (.num [50]) ∧
    (travOld .get false .null wNestedParts wNested).2 = .ok none ∧
    (access .get wNestedPath .empty wNested).2 = .ok (some (.num [50])) := by
  decide

/-- **the old code acknowledged writes it did not perform** (non-vacuity of the
    `write_effect_*` theorems on such paths): PATCH on the same element returned `nil` —
    answered 200 — with the tree unchanged.  The current code replaces the element. -/
theorem write_effect_old_code_fails :
    travOld .patch false (.num [55]) wNestedParts wNested = (wNested, .ok none) ∧
    (access .patch wNestedPath (.val (.num [55])) wNested).2 = .ok none ∧
    sget wNestedParts (access .patch wNestedPath (.val (.num [55])) wNested).1 = some (.num [55]) := by
  decide

/-! #### /id/ -/

def wAll : Env := ⟨fun _ => [], fun _ => true, fun _ => none⟩
def wGet (p : Bytes) : Req := ⟨.get, p, .empty, [], false, .json⟩
def wLoad (doc : Json) : State := (serve wAll (wReq .post cfgSlash (.val doc)) initState).1

/-- `{"a":{"b":7},"a/b":{"@id":"s","v":1}}` -/
def wSlashDoc : Json :=
  .obj [([97], .obj [([98], .num [55])]), ([97, 47, 98], .obj [(idKey, .str [115]), ([118], .num [49])])]
def wIdS : Bytes := [47, 105, 100, 47, 115]       -- "/id/s"

/-- **an @id can resolve to a different object.**  The object tagged `"@id":"s"` sits under
    the key `a/b`; `indexConfigObjects` files it under `path.Join("/config", "a/b")` =
    `/config/a/b`, which names the member `b` of the object `a`: `GET /id/s` answers 200
    with `7`. (Same for keys "", "." and a trailing "...".) -/
theorem id_resolves_full_fails :
    (wLoad wSlashDoc).rawCfgJSON = some wSlashDoc ∧
    ([[97, 47, 98]], [115]) ∈ taggedJ wSlashDoc ∧
    (serve wAll (wGet wIdS) (wLoad wSlashDoc)).2 = .okGet (some (.num [55])) [47, 99, 111, 110, 102, 105, 103, 47, 97, 47, 98] := by
  decide

/-- `{"@id":"r","v":1}` -/
def wRootDoc : Json := .obj [(idKey, .str [114]), ([118], .num [49])]
def wIdR : Bytes := [47, 105, 100, 47, 114]       -- "/id/r"

/-- **the old code did not serve an @id on the top-level object** (non-vacuity of the root
    case of `id_resolves_partial`): it is indexed as `/config`; `handleConfigID` used to hand
    exactly that path to the mux, which answers 301 (to `/config/`).  The current code
    appends the slash and `GET /id/r` returns the whole configuration. -/
theorem id_on_root_old_code_fails :
    (wLoad wRootDoc).index = [([114], slash :: cfgKey)] ∧ route (slash :: cfgKey) = .redirect ∧
    (serve wAll (wGet wIdR) (wLoad wRootDoc)).2 = .okGet (some wRootDoc) cfgPrefix := by
  decide

end CaddyModel.C12
