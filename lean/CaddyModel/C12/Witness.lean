/-
C12 — proved counter-examples: clauses of the property that the code as it is does NOT
satisfy at full strength.  Each is a concrete, kernel-evaluated history; the same
histories are exported as protocol lines (`Driver.witnessLines`) and replayed on the
real handler on every run.
-/
import CaddyModel.C12.PathLemmas

namespace CaddyModel.C12

/-- a world in which the apps accept only the empty configuration -/
def wEnv : Env := ⟨fun _ => [], fun j => j == .null⟩

def cfgSlash : Bytes := cfgPrefix     -- "/config/"

def wReq (m : HMethod) (p : Bytes) (b : Body) : Req := ⟨m, p, b, [], false, true⟩

/-- state after `DELETE /config/` on a fresh process: the Go map `rawCfg` has no "config" key -/
def wDeleted : State := (serve wEnv (wReq .delete cfgSlash .empty) initState).1

/-- **a rejected request can change something.**  Full statement
    `∀ reachable s, request r answered non-200 → state after = state before` is false:
    after `DELETE /config/` succeeded, a `PUT /config/ true` that the apps reject makes
    `restoreOldCfg` re-create the "config" key (with value nil).  `GET /config/` reads `null`
    either way, but a following `PUT /config/` is answered 409 instead of 200. -/
theorem rejected_changes_nothing_full_fails :
    ∃ (env : Env) (r r' : Req) (s : State),
      s = (serve env (wReq .delete cfgSlash .empty) initState).1 ∧
      (serve env r s).2 = .fail .load ∧ (serve env r s).1 ≠ s ∧
      (serve env r' s).2 = .okWrite ∧ (serve env r' (serve env r s).1).2 = .fail (.access .keyExists) :=
  ⟨wEnv, wReq .put cfgSlash (.val (.bool true)), wReq .put cfgSlash (.val .null), wDeleted,
    rfl, by decide, by decide, by decide, by decide⟩

/-- `{"config":{"a":[[1,2]]}}` -/
def wNested : Json := .obj [(cfgKey, .obj [([97], .arr [.arr [.num [49], .num [50]]])])]
def wNestedPath : Bytes := [47, 99, 111, 110, 102, 105, 103, 47, 97, 47, 48, 47, 49]   -- "/config/a/0/1"

/-- **GET does not return every value.**  Full statement
    `sget parts root = some v → GET = ok (some v)` is false: the element `2` of the inner
    array of `{"a":[[1,2]]}` is named by `/config/a/0/1`, but the traversal's `[]any` arm only
    steps into elements, runs off the end of the path and returns `nil` having written
    nothing (HTTP: 200 with an empty body and the ETag of the empty string). -/
theorem get_is_lookup_full_fails :
    ∃ (path : Bytes) (root v : Json), sget (pathParts path).1 root = some v ∧
      (access .get path .empty root).2 = .ok none :=
  ⟨wNestedPath, wNested, .num [50], by decide, by decide⟩

/-- **a write can be acknowledged and do nothing.**  Same paths: PATCH (and PUT, POST,
    DELETE) on an element of an array directly inside an array returns `nil` — the request
    is answered 200 — and the tree is unchanged. -/
theorem write_effect_full_fails :
    ∃ (path : Bytes) (root val : Json),
      (access .patch path (.val val) root).2 = .ok none ∧
      (access .patch path (.val val) root).1 = root ∧
      sget (pathParts path).1 root ≠ some val :=
  ⟨wNestedPath, wNested, .num [55], by decide, by decide, by decide⟩

end CaddyModel.C12
