/-
C12 — proved counter-examples: clauses of the property that the code as it is does NOT
satisfy at full strength.  Each is a concrete, kernel-evaluated history; the same
histories are exported as protocol lines (`Driver.witnessLines`) and replayed on the
real handler on every run.
-/
import CaddyModel.C12.PathLemmas

namespace CaddyModel.C12

/-- a world in which the apps accept only the empty configuration -/
def wEnv : Env := ⟨fun _ => [], fun j => j == .null⟩

def cfgSlash : Bytes := cfgPrefix     -- "/config/"

def wReq (m : HMethod) (p : Bytes) (b : Body) : Req := ⟨m, p, b, [], false, true⟩

/-- state after `DELETE /config/` on a fresh process: the Go map `rawCfg` has no "config" key -/
def wDeleted : State := (serve wEnv (wReq .delete cfgSlash .empty) initState).1

/-- `restoreOldCfg` as it was before /repo's fix: it always stored the old configuration under
    the `config` key, also when `DELETE /config/` had removed that key -/
def restoreOld (s : State) (root : Json) : State :=
  { s with rawCfg := setCfg (encodeOf s.rawCfgJSON) root }

/-- **the old code let a rejected request change something** (non-vacuity of
    `rejected_changes_nothing`): after `DELETE /config/` the Go map has no `config` key; the
    old restore re-created it with a nil value — `GET /config/` read `null` either way, but a
    following `PUT /config/` was answered 409 instead of 200. The restore of the current code
    removes the key again. -/
theorem rejected_changes_nothing_old_code_fails :
    wDeleted.rawCfg = .obj [] ∧
    restoreOld wDeleted (.obj [(cfgKey, .bool true)]) ≠ wDeleted ∧
    restore wDeleted (.obj [(cfgKey, .bool true)]) = wDeleted ∧
    (serve wEnv (wReq .put cfgSlash (.val (.bool true))) wDeleted) = (wDeleted, .fail .load) := by
  decide

/-- `{"config":{"a":[[1,2]]}}` -/
def wNested : Json := .obj [(cfgKey, .obj [([97], .arr [.arr [.num [49], .num [50]]])])]
def wNestedPath : Bytes := [47, 99, 111, 110, 102, 105, 103, 47, 97, 47, 48, 47, 49]   -- "/config/a/0/1"

/-- **GET does not return every value.**  Full statement
    `sget parts root = some v → GET = ok (some v)` is false: the element `2` of the inner
    array of `{"a":[[1,2]]}` is named by `/config/a/0/1`, but the traversal's `[]any` arm only
    steps into elements, runs off the end of the path and returns `nil` having written
    nothing (HTTP: 200 with an empty body and the ETag of the empty string). -/
theorem get_is_lookup_full_fails :
    ∃ (path : Bytes) (root v : Json), sget (pathParts path).1 root = some v ∧
      (access .get path .empty root).2 = .ok none :=
  ⟨wNestedPath, wNested, .num [50], by decide, by decide⟩

/-- **a write can be acknowledged and do nothing.**  Same paths: PATCH (and PUT, POST,
    DELETE) on an element of an array directly inside an array returns `nil` — the request
    is answered 200 — and the tree is unchanged. -/
theorem write_effect_full_fails :
    ∃ (path : Bytes) (root val : Json),
      (access .patch path (.val val) root).2 = .ok none ∧
      (access .patch path (.val val) root).1 = root ∧
      sget (pathParts path).1 root ≠ some val :=
  ⟨wNestedPath, wNested, .num [55], by decide, by decide, by decide⟩

/-! #### /id/ -/

def wAll : Env := ⟨fun _ => [], fun _ => true⟩
def wGet (p : Bytes) : Req := ⟨.get, p, .empty, [], false, true⟩
def wLoad (doc : Json) : State := (serve wAll (wReq .post cfgSlash (.val doc)) initState).1

/-- `{"a":{"b":7},"a/b":{"@id":"s","v":1}}` -/
def wSlashDoc : Json :=
  .obj [([97], .obj [([98], .num [55])]), ([97, 47, 98], .obj [(idKey, .str [115]), ([118], .num [49])])]
def wIdS : Bytes := [47, 105, 100, 47, 115]       -- "/id/s"

/-- **an @id can resolve to a different object.**  The object tagged `"@id":"s"` sits under
    the key `a/b`; `indexConfigObjects` files it under `path.Join("/config", "a/b")` =
    `/config/a/b`, which names the member `b` of the object `a`: `GET /id/s` answers 200
    with `7`. (Same for keys "", "." and a trailing "...".) -/
theorem id_resolves_full_fails :
    (wLoad wSlashDoc).rawCfgJSON = some wSlashDoc ∧
    ([[97, 47, 98]], [115]) ∈ taggedJ wSlashDoc ∧
    (serve wAll (wGet wIdS) (wLoad wSlashDoc)).2 = .okGet (some (.num [55])) [47, 99, 111, 110, 102, 105, 103, 47, 97, 47, 98] := by
  decide

/-- `{"@id":"r","v":1}` -/
def wRootDoc : Json := .obj [(idKey, .str [114]), ([118], .num [49])]
def wIdR : Bytes := [47, 105, 100, 47, 114]       -- "/id/r"

/-- **the old code did not serve an @id on the top-level object** (non-vacuity of the root
    case of `id_resolves_partial`): it is indexed as `/config`; `handleConfigID` used to hand
    exactly that path to the mux, which answers 301 (to `/config/`).  The current code
    appends the slash and `GET /id/r` returns the whole configuration. -/
theorem id_on_root_old_code_fails :
    (wLoad wRootDoc).index = [([114], slash :: cfgKey)] ∧ route (slash :: cfgKey) = .redirect ∧
    (serve wAll (wGet wIdR) (wLoad wRootDoc)).2 = .okGet (some wRootDoc) cfgPrefix := by
  decide

end CaddyModel.C12
