/-
C12 — the invariant of the read–modify–write transition system (`Cas.lean`).
-/
import CaddyModel.C12.CasLemmas

namespace CaddyModel.C12

/-- what the theorem assumes about the world: the ETag hash separates the values compared
    (trusted: xxhash collisions) and prints as a non-empty word; `p` is a /config/ path
    without white space (so that the ETag `"<p> <hash>"` has exactly two fields) -/
structure CasHyp (env : Env) (p : Bytes) (f : Nat → Option Json → Json) (V : Option Json → Prop) : Prop where
  /-- `V` = the values the counter can take; the hash has to separate only those -/
  inj : ∀ a b, V a → V b → env.hash a = env.hash b → a = b
  closed : ∀ c v, V (some v) → V (some (f c (some v)))
  hne : ∀ a, V a → env.hash a ≠ []
  hns : ∀ a, V a → noSpace (env.hash a)
  route : route p = .config
  pns : noSpace p

theorem CasHyp.pne {env : Env} {p : Bytes} {f : Nat → Option Json → Json} {V : Option Json → Prop} (h : CasHyp env p f V) : p ≠ [] := by
  intro hp
  have := h.route
  rw [hp] at this
  simp [CaddyModel.C12.route] at this

theorem chain_append (f : Nat → Option Json → Json) : ∀ (log : List (Nat × Json)) (v0 v : Json) (c : Nat),
    chain f v0 log = some v → chain f v0 (log ++ [(c, f c (some v))]) = some (f c (some v))
  | [], v0, v, c, h => by simp [chain] at h; subst h; simp [chain]
  | (c', w) :: r, v0, v, c, h => by
    simp only [chain, List.cons_append] at h ⊢
    split at h
    · next hw => subst hw; simp only [if_true]; exact chain_append f r _ v c h
    · cases h

theorem changeResp_ok_iff (c : ChangeRes) : changeResp c = .okWrite ↔ (c = .ok ∨ c = .same) := by
  cases c <;> simp [changeResp]

theorem mutate_accepted {env : Env} {m : Method} {path : Bytes} {body : Body} {force : Bool} {s : State}
    (h : (mutate env m path body force s).2 = .ok ∨ (mutate env m path body force s).2 = .same) :
    (mutate env m path body force s).1.rawCfg = (access m path body s.rawCfg).1 ∧
    ∃ o, (access m path body s.rawCfg).2 = .ok o := by
  unfold mutate at h ⊢
  generalize access m path body s.rawCfg = ar at h ⊢
  obtain ⟨root, r⟩ := ar
  cases r with
  | err e => simp at h
  | panic => simp at h
  | ok o =>
    refine ⟨?_, o, rfl⟩
    simp only at h ⊢
    unfold commit at h ⊢
    split
    · rfl
    · next hc =>
      simp only [hc] at h
      split
      · next hi => simp [hi] at h
      · next idx hi =>
        simp only [hi] at h
        split
        · next hb => simp [hb] at h
        · rfl

theorem handleConfig_patch (env : Env) (p0 p : Bytes) (w : Json) (ifm : Bytes) (force : Bool) (s : State) :
    handleConfig env ⟨.patch, p0, .val w, ifm, force, .json⟩ p s =
      ((change env .patch p (.val w) ifm force s).1, changeResp (change env .patch p (.val w) ifm force s).2) := by
  simp [handleConfig, toMethod, Req.ctJSON, CT.containsJSON]

theorem handleConfig_get (env : Env) (r : Req) (p : Bytes) (s : State) (h : r.method = .get) :
    handleConfig env r p s =
      match access .get p .empty s.rawCfg with
      | (_, .ok out) => (s, .okGet out p)
      | (_, .err e) => (s, .fail (.access e))
      | (_, .panic) => (s, .fail .panic) := by
  unfold handleConfig; simp only [h]
  generalize access .get p .empty s.rawCfg = ar
  obtain ⟨a, r⟩ := ar
  cases r <;> rfl

structure CasInv (p : Bytes) (f : Nat → Option Json → Json) (V : Option Json → Prop) (v0 : Json) (y : Sys) : Prop where
  inv : Inv y.s
  cur : ∃ v, (access .get p .empty y.s.rawCfg).2 = .ok (some v) ∧ chain f v0 y.log = some v ∧ V (some v)
  held : ∀ c ep out, y.held c = some (ep, out) → ep = p ∧ V out

theorem cas_step {env : Env} {p : Bytes} {f : Nat → Option Json → Json} {V : Option Json → Prop} {v0 : Json}
    (hyp : CasHyp env p f V) {y : Sys} (hi : CasInv p f V v0 y) (c : Nat) : CasInv p f V v0 (stepClient env p f y c) := by
  obtain ⟨v, hv, hch, hV⟩ := hi.cur
  have hund : underConfig p := underConfig_of_prefix (route_config hyp.route)
  unfold stepClient
  cases hh : y.held c with
  | none =>
    simp only
    have hs : serve env (readReq p) y.s = handleConfig env (readReq p) p y.s := serve_config (r := readReq p) hyp.route
    rw [hs, handleConfig_get _ _ _ _ rfl]
    generalize hacc : access .get p .empty y.s.rawCfg = ar at hv
    obtain ⟨root, r⟩ := ar
    simp only at hv
    subst hv
    simp only
    refine ⟨hi.inv, ⟨v, by rw [hacc], hch, hV⟩, ?_⟩
    intro c' ep out hc'
    simp only [upd] at hc'
    split at hc'
    · simp at hc'; exact ⟨hc'.1.symm, hc'.2 ▸ hV⟩
    · exact hi.held c' ep out hc'
  | some held =>
    obtain ⟨ep, out⟩ := held
    have hep : ep = p := (hi.held c ep out hh).1
    have hVout : V out := (hi.held c ep out hh).2
    subst hep
    simp only
    have hs : serve env (casReq env ep ep out (f c out)) y.s =
        handleConfig env (casReq env ep ep out (f c out)) ep y.s := serve_config (r := casReq env ep ep out (f c out)) hyp.route
    rw [hs]
    unfold casReq
    rw [handleConfig_patch, change_cas hyp.pne hyp.pns (hyp.hne _ hVout) (hyp.hns _ hVout)]
    have held' : ∀ c' ep' out', upd y.held c none c' = some (ep', out') → ep' = ep ∧ V out' := by
      intro c' ep' out' hc'
      simp only [upd] at hc'
      split at hc'
      · cases hc'
      · exact hi.held c' ep' out' hc'
    generalize hacc : access .get ep .empty y.s.rawCfg = ar at hv
    obtain ⟨root0, r0⟩ := ar
    simp only at hv
    subst hv
    simp only
    by_cases hhash : env.hash (some v) ≠ env.hash out
    · -- the value changed since the ETag was issued: 412, nothing happens
      rw [if_pos hhash]
      simp only [changeResp]
      exact ⟨hi.inv, ⟨v, by rw [hacc], hch, hV⟩, held'⟩
    · rw [if_neg hhash]
      have hout : out = some v := (hyp.inj _ _ hV hVout (by simpa using hhash)).symm
      subst hout
      by_cases hacc2 : (mutate env .patch ep (.val (f c (some v))) false y.s).2 = .ok ∨
          (mutate env .patch ep (.val (f c (some v))) false y.s).2 = .same
      · -- acknowledged
        have hr : changeResp (mutate env .patch ep (.val (f c (some v))) false y.s).2 = .okWrite :=
          (changeResp_ok_iff _).2 hacc2
        rw [hr]
        simp only
        obtain ⟨hroot, o, hok⟩ := mutate_accepted hacc2
        refine ⟨mutate_inv hi.inv hund, ⟨f c (some v), ?_, chain_append f _ _ _ _ hch, hyp.closed c v hV⟩, held'⟩
        · rw [hroot]
          exact access_patch_then_get (by rw [hacc]) hok
      · -- refused after the check (traversal error, rejected by the indexer or the apps): rolled back
        have hne : changeResp (mutate env .patch ep (.val (f c (some v))) false y.s).2 ≠ .okWrite :=
          fun h => hacc2 ((changeResp_ok_iff _).1 h)
        have hsame := mutate_rejected (env := env) (m := .patch) (path := ep) (body := .val (f c (some v))) (force := false)
          hi.inv hund (fun h => hacc2 (Or.inl h)) (fun h => hacc2 (Or.inr h))
        generalize hx : changeResp (mutate env .patch ep (.val (f c (some v))) false y.s).2 = resp at hne
        cases resp with
        | okWrite => exact absurd rfl hne
        | _ =>
          simp only
          rw [hsame]
          exact ⟨hi.inv, ⟨v, by rw [hacc], hch, hV⟩, held'⟩

theorem cas_run {env : Env} {p : Bytes} {f : Nat → Option Json → Json} {V : Option Json → Prop} {v0 : Json}
    (hyp : CasHyp env p f V) :
    ∀ (sched : List Nat) (y : Sys), CasInv p f V v0 y → CasInv p f V v0 (runSched env p f sched y)
  | [], y, h => h
  | c :: r, y, h => by
    unfold runSched
    simp only [List.foldl]
    exact cas_run hyp r _ (cas_step hyp h c)

theorem chain_size (f : Nat → Option Json → Json) (size : Json → Nat)
    (hsz : ∀ c v, size (f c (some v)) = size v + 1) :
    ∀ (log : List (Nat × Json)) (v0 v : Json), chain f v0 log = some v → size v = size v0 + log.length
  | [], v0, v, h => by simp [chain] at h; subst h; simp
  | (c, w) :: r, v0, v, h => by
    simp only [chain] at h
    split at h
    · next hw =>
      have := chain_size f size hsz r w v h
      rw [this, hw, hsz]; simp; omega
    · cases h

end CaddyModel.C12
