/-
C12 — "no key twice" (the representation invariant of a Go map, `uniqueKeys`) is preserved
by every operation of the API, so it holds of the document after any history whose request
bodies have it (the bodies are `encoding/json` decodings, which do).
-/
import CaddyModel.C12.PathLemmas

namespace CaddyModel.C12

theorem ukO_cons (k : Bytes) (v : Json) (r : Obj) :
    uniqueKeysO ((k, v) :: r) = ((lookup k r).isNone && uniqueKeys v && uniqueKeysO r) := by
  rw [uniqueKeysO]

theorem uk_lookup : ∀ {kvs : Obj} {k : Bytes} {c : Json}, uniqueKeysO kvs = true → lookup k kvs = some c → uniqueKeys c = true
  | [], _, _, _, h => by simp [lookup] at h
  | (k', v') :: r, k, c, hu, h => by
    rw [ukO_cons] at hu; simp at hu
    unfold lookup at h
    split at h
    · cases h; exact hu.1.2
    · exact uk_lookup hu.2 h

theorem uk_replaceKey {k : Bytes} {v : Json} (hv : uniqueKeys v = true) : ∀ {m : Obj}, uniqueKeysO m = true →
    uniqueKeysO (replaceKey k v m) = true
  | [], _ => by simp [replaceKey, uniqueKeysO]
  | (k', v') :: r, hu => by
    rw [ukO_cons] at hu; simp at hu
    unfold replaceKey
    split
    · next hk => rw [ukO_cons]; subst hk; simp [hu.1.1, hv, hu.2]
    · next hk =>
      rw [ukO_cons, lookup_replaceKey_other (Ne.symm hk)]
      simp [hu.1.1, hu.1.2, uk_replaceKey hv hu.2]

theorem uk_insertSorted {k : Bytes} {v : Json} (hv : uniqueKeys v = true) : ∀ {m : Obj}, uniqueKeysO m = true →
    lookup k m = none → uniqueKeysO (insertSorted k v m) = true
  | [], _, _ => by simp [insertSorted, uniqueKeysO, lookup, hv]
  | (k', v') :: r, hu, hn => by
    have hu' := hu
    rw [ukO_cons] at hu; simp at hu
    have hne : k ≠ k' := by
      intro e; subst e; simp [lookup] at hn
    have hn' : lookup k r = none := by simpa [lookup, hne] using hn
    unfold insertSorted
    split
    · rw [ukO_cons]; simp [hn, hv, hu']
    · rw [ukO_cons, lookup_insertSorted_other (Ne.symm hne)]
      simp [hu.1.1, hu.1.2, uk_insertSorted hv hu.2 hn']

theorem uk_setKey {k : Bytes} {v : Json} {m : Obj} (hv : uniqueKeys v = true) (hu : uniqueKeysO m = true) :
    uniqueKeysO (setKey k v m) = true := by
  unfold setKey
  split
  · exact uk_replaceKey hv hu
  · next h => exact uk_insertSorted hv hu (by cases hl : lookup k m <;> simp_all)

theorem lookup_eraseKey_none {k k' : Bytes} : ∀ {m : Obj}, lookup k' m = none → lookup k' (eraseKey k m) = none
  | [], _ => by simp [eraseKey, lookup]
  | (k'', v'') :: r, h => by
    unfold lookup at h
    split at h
    · cases h
    · next hk =>
      unfold eraseKey
      split
      · exact lookup_eraseKey_none h
      · simp [lookup, hk, lookup_eraseKey_none h]

theorem uk_eraseKey {k : Bytes} : ∀ {m : Obj}, uniqueKeysO m = true → uniqueKeysO (eraseKey k m) = true
  | [], _ => by simp [eraseKey, uniqueKeysO]
  | (k', v') :: r, hu => by
    rw [ukO_cons] at hu; simp at hu
    unfold eraseKey
    split
    · exact uk_eraseKey hu.2
    · rw [ukO_cons]; simp [lookup_eraseKey_none hu.1.1, hu.1.2, uk_eraseKey hu.2]

theorem ukL_iff : ∀ (xs : List Json), uniqueKeysL xs = true ↔ ∀ x ∈ xs, uniqueKeys x = true
  | [] => by simp [uniqueKeysL]
  | x :: xs => by rw [uniqueKeysL]; simp [ukL_iff xs]

theorem uk_arr (xs : List Json) : uniqueKeys (.arr xs) = uniqueKeysL xs := by rw [uniqueKeys]
theorem uk_obj (kvs : Obj) : uniqueKeys (.obj kvs) = uniqueKeysO kvs := by rw [uniqueKeys]

theorem ukL_set {xs : List Json} {i : Nat} {c : Json} (h : uniqueKeysL xs = true) (hc : uniqueKeys c = true) :
    uniqueKeysL (xs.set i c) = true := by
  rw [ukL_iff] at h ⊢
  intro x hx
  rcases List.mem_or_eq_of_mem_set hx with hx | hx
  · exact h x hx
  · rw [hx]; exact hc

theorem ukL_getElem {xs : List Json} {i : Nat} {c : Json} (h : uniqueKeysL xs = true) (hx : xs[i]? = some c) :
    uniqueKeys c = true := by
  rw [ukL_iff] at h
  exact h c (List.mem_of_getElem? hx)

theorem uk_arrayOp {m : Method} {ell : Bool} {val : Json} {idxStr : Bytes} {arr : List Json}
    (hval : uniqueKeys val = true) (harr : uniqueKeysL arr = true) :
    uniqueKeysL (arrayOp m ell val idxStr arr).1 = true := by
  have happ : ∀ ys, uniqueKeysL ys = true → uniqueKeysL (arr ++ ys) = true := by
    intro ys hys; rw [ukL_iff] at harr hys ⊢
    intro x hx; rcases List.mem_append.1 hx with hx | hx
    · exact harr x hx
    · exact hys x hx
  cases m <;> simp only [arrayOp] <;> (repeat' split) <;> try exact harr
  all_goals first
    | (apply happ; simp [uniqueKeysL, hval]; done)
    | (apply happ; rename_i vs _; have := hval; rw [uk_arr] at this; exact this)
    | (exact ukL_set harr hval)
    | (rw [ukL_iff] at harr ⊢; intro x hx
       first
        | (rcases List.mem_insertIdx (by omega) |>.1 hx with hx | hx
           · rw [hx]; exact hval
           · exact harr x hx)
        | exact harr x (List.mem_of_mem_eraseIdx hx))

theorem ukL_append {xs ys : List Json} (hx : uniqueKeysL xs = true) (hy : uniqueKeysL ys = true) :
    uniqueKeysL (xs ++ ys) = true := by
  rw [ukL_iff] at hx hy ⊢
  intro x h; rcases List.mem_append.1 h with h | h
  · exact hx x h
  · exact hy x h

theorem uk_lastOp {m : Method} {ell : Bool} {val : Json} {part : Bytes} {kvs : Obj}
    (hval : uniqueKeys val = true) (hu : uniqueKeysO kvs = true) :
    uniqueKeys (lastOp m ell val part kvs (lookup part kvs)).1 = true := by
  cases m with
  | get => simp only [lastOp, uk_obj]; exact hu
  | put => simp only [lastOp]; split <;> simp only [uk_obj] <;> first | exact hu | exact uk_setKey hval hu
  | patch => simp only [lastOp]; split <;> simp only [uk_obj] <;> first | exact hu | exact uk_setKey hval hu
  | delete => simp only [lastOp]; split <;> simp only [uk_obj] <;> first | exact hu | exact uk_eraseKey hu
  | post =>
    simp only [lastOp]
    cases hl : lookup part kvs with
    | none => simp only [uk_obj]; exact uk_setKey hval hu
    | some c =>
      cases c with
      | arr arr =>
        have harr : uniqueKeysL arr = true := by have := uk_lookup hu hl; rwa [uk_arr] at this
        simp only
        split
        · cases val with
          | arr vs =>
            simp only [uk_obj]
            have hvs : uniqueKeysL vs = true := by rwa [uk_arr] at hval
            exact uk_setKey (by rw [uk_arr]; exact ukL_append harr hvs) hu
          | _ => simp only [uk_obj]; exact hu
        · simp only [uk_obj]
          exact uk_setKey (by rw [uk_arr]; exact ukL_append harr (by simp [uniqueKeysL, hval])) hu
      | _ => simp only [uk_obj]; exact uk_setKey hval hu

theorem uk_trav (m : Method) (ell : Bool) (val : Json) (hval : uniqueKeys val = true) :
    ∀ (parts : List Bytes) (node : Json), uniqueKeys node = true → uniqueKeys (trav m ell val parts node).1 = true := by
  intro parts
  induction parts with
  | nil => intro node h; rw [trav_nil]; exact h
  | cons part rest ih =>
    intro node hu
    cases node with
    | obj kvs =>
      rw [uk_obj] at hu
      rcases trav_obj_cases m ell val part rest kvs with ⟨arr, idxStr, rfl, hl, heq⟩ | ⟨rfl, heq⟩ | ⟨a', b', rfl, hns, heq⟩
      · rw [heq]; simp only [inArrayDest, uk_obj]
        apply uk_replaceKey _ hu
        rw [uk_arr]
        have := uk_lookup hu hl
        rw [uk_arr] at this
        exact uk_arrayOp hval this
      · rw [heq]; exact uk_lastOp hval hu
      · rw [heq]
        split
        · simp only [inNewObj, uk_obj]
          exact uk_setKey (ih _ (by simp [uniqueKeys, uniqueKeysO])) hu
        · split
          · rw [uk_obj]; exact hu
          · next c hl =>
            simp only [inObj, uk_obj]
            exact uk_replaceKey (ih c (uk_lookup hu hl)) hu
    | arr xs =>
      rw [uk_arr] at hu
      rcases trav_arr_cases m ell val part rest xs with ⟨_, heq⟩ | ⟨i, _, _, heq⟩ | ⟨i, c, ha, h0, hlt, hx, ⟨arr, idxStr, rfl, rfl, heq⟩ | ⟨_, heq⟩⟩
      · rw [heq, uk_arr]; exact hu
      · rw [heq, uk_arr]; exact hu
      · rw [heq]; simp only [inArrayElem, uk_arr]
        apply ukL_set hu
        rw [uk_arr]
        have := ukL_getElem hu hx
        rw [uk_arr] at this
        exact uk_arrayOp hval this
      · rw [heq]; simp only [inArr, uk_arr]
        exact ukL_set hu (ih c (ukL_getElem hu hx))
    | null => rw [trav_scalar (by simp) (by simp)]; exact hu
    | bool _ => rw [trav_scalar (by simp) (by simp)]; exact hu
    | num _ => rw [trav_scalar (by simp) (by simp)]; exact hu
    | str _ => rw [trav_scalar (by simp) (by simp)]; exact hu

/-- the body is a tree without duplicate keys (or no tree at all) -/
def bodyUK : Body → Prop
  | .val j => uniqueKeys j = true
  | _ => True

theorem uk_bodyVal {b : Body} (h : bodyUK b) : uniqueKeys (bodyVal b) = true := by
  cases b <;> simp_all [bodyVal, bodyUK, uniqueKeys]

theorem uk_access {m : Method} {path : Bytes} {body : Body} {root : Json} (hb : bodyUK body)
    (hu : uniqueKeys root = true) : uniqueKeys (access m path body root).1 = true := by
  unfold access
  split
  · exact hu
  · split
    · exact hu
    · exact uk_trav _ _ _ (uk_bodyVal hb) _ _ hu

/-! ### state level -/

/-- no key twice anywhere in the in-memory tree or in the last loaded configuration -/
structure UKS (s : State) : Prop where
  tree : uniqueKeys s.rawCfg = true
  loaded : ∀ j, s.rawCfgJSON = some j → uniqueKeys j = true

theorem uks_init : UKS initState := ⟨by decide, by intro j h; cases h⟩

theorem uk_cfgOf {root : Json} (h : uniqueKeys root = true) : uniqueKeys (cfgOf root) = true := by
  cases root <;> simp [cfgOf, uniqueKeys]
  next kvs =>
    rw [uk_obj] at h
    cases hl : lookup cfgKey kvs with
    | none => simp [encodeOf, uniqueKeys]
    | some c => simp [encodeOf]; exact uk_lookup h hl

theorem uk_restore {s : State} {root : Json} (hs : UKS s) (hr : uniqueKeys root = true) : UKS (restore s root) := by
  refine ⟨?_, hs.loaded⟩
  unfold restore
  simp only
  split
  · cases root <;> simp only [setCfg] <;> try exact hr
    next kvs =>
      rw [uk_obj] at hr ⊢
      apply uk_setKey _ hr
      cases hj : s.rawCfgJSON with
      | none => simp [encodeOf, uniqueKeys]
      | some j => simp [encodeOf]; exact hs.loaded j hj
  · cases root <;> simp only [eraseCfg] <;> try exact hr
    next kvs => rw [uk_obj] at hr ⊢; exact uk_eraseKey hr

theorem uk_commit {env : Env} {force : Bool} {s : State} {root : Json} (hs : UKS s) (hr : uniqueKeys root = true) :
    UKS (commit env force s root).1 := by
  unfold commit
  split
  · exact ⟨hr, hs.loaded⟩
  · split
    · exact uk_restore hs hr
    · split
      · exact uk_restore hs hr
      · exact ⟨hr, by intro j hj; simp at hj; subst hj; exact uk_cfgOf hr⟩

theorem uk_mutate {env : Env} {m : Method} {path : Bytes} {body : Body} {force : Bool} {s : State}
    (hs : UKS s) (hb : bodyUK body) : UKS (mutate env m path body force s).1 := by
  have hr := uk_access (m := m) (path := path) hb hs.tree
  unfold mutate
  split
  · next root e heq => rw [heq] at hr; exact ⟨hr, hs.loaded⟩
  · next root heq => rw [heq] at hr; exact ⟨hr, hs.loaded⟩
  · next root out heq => rw [heq] at hr; exact uk_commit hs hr

theorem uk_change {env : Env} {m : Method} {path : Bytes} {body : Body} {ifm : Bytes} {force : Bool} {s : State}
    (hs : UKS s) (hb : bodyUK body) : UKS (change env m path body ifm force s).1 := by
  unfold change
  split
  · exact uk_mutate hs hb
  · split
    · exact hs
    · split
      · split
        · exact hs
        · exact hs
        · split
          · exact hs
          · exact uk_mutate hs hb
      · exact hs

/-- the registered adapter produces trees without duplicate keys -/
def adaptUK (env : Env) : Prop := ∀ b j, bodyUK b → env.adapt b = some j → uniqueKeys j = true

theorem uk_serve {env : Env} {r : Req} {s : State} (ha : adaptUK env) (hs : UKS s) (hb : bodyUK r.body) :
    UKS (serve env r s).1 := by
  have hcfg : ∀ p, UKS (handleConfig env r p s).1 := by
    intro p
    unfold handleConfig
    split
    · split <;> exact hs
    · exact hs
    · split
      · exact hs
      · split
        · exact hs
        · apply uk_change hs
          split
          · trivial
          · exact hb
  unfold serve
  split
  · exact hs
  · exact hs
  · exact hcfg _
  · unfold handleLoad
    split
    · exact hs
    · split
      · exact hs
      · next b hb' =>
        apply uk_change hs
        unfold adaptByContentType at hb'
        split at hb' <;> try (cases hb'; exact hb)
        all_goals try cases hb'
        next =>
          split at hb'
          · next j hj => cases hb'; exact ha _ _ hb hj
          · cases hb'
  · rw [handleAdapt_pure]; exact hs
  · split
    · exact hs
    · exact hs
    · split
      · exact hcfg _
      · exact hs
      · exact hs

end CaddyModel.C12
