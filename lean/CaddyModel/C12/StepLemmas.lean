/-
C12 — the shape of a successful, effective traversal as an inductive relation (`Step`):
six rules instead of the loop. Every effect theorem is an induction over `Step`.
-/
import CaddyModel.C12.FrameLemmas

namespace CaddyModel.C12

/-- `Step m ell val parts node node' out`: the traversal of `parts` from `node` succeeds with
    output `out`, ends in one of the places where something happens (the last-part arm or the
    array-destination block, entered from a map or from a slice) and leaves `node'` behind. -/
inductive Step (m : Method) (ell : Bool) (val : Json) : List Bytes → Json → Json → Option Json → Prop
  | special {part idxStr : Bytes} {kvs : Obj} {arr arr' : List Json} {o : Option Json} :
      lookup part kvs = some (.arr arr) → arrayOp m ell val idxStr arr = (arr', .ok o) →
      Step m ell val [part, idxStr] (.obj kvs) (.obj (replaceKey part (.arr arr') kvs)) o
  | last {part : Bytes} {kvs : Obj} {n' : Json} {o : Option Json} :
      lastOp m ell val part kvs (lookup part kvs) = (n', .ok o) →
      Step m ell val [part] (.obj kvs) n' o
  | create {part a : Bytes} {b : List Bytes} {kvs : Obj} {c' : Json} {o : Option Json} :
      isNil (lookup part kvs) = true → m = .put →
      Step m ell val (a :: b) (.obj []) c' o →
      Step m ell val (part :: a :: b) (.obj kvs) (.obj (setKey part c' kvs)) o
  | inObj {part a : Bytes} {b : List Bytes} {kvs : Obj} {c c' : Json} {o : Option Json} :
      lookup part kvs = some c → (isNil (some c) && m == .put) = false →
      (∀ arr, c = .arr arr → b ≠ []) →
      Step m ell val (a :: b) c c' o →
      Step m ell val (part :: a :: b) (.obj kvs) (.obj (replaceKey part c' kvs)) o
  | specialArr {part idxStr : Bytes} {xs : List Json} {i : Int} {arr arr' : List Json} {o : Option Json} :
      atoi part = some i → 0 ≤ i → i < xs.length → xs[i.toNat]? = some (.arr arr) →
      arrayOp m ell val idxStr arr = (arr', .ok o) →
      Step m ell val [part, idxStr] (.arr xs) (.arr (xs.set i.toNat (.arr arr'))) o
  | inArr {part r0 : Bytes} {r' : List Bytes} {xs : List Json} {i : Int} {c c' : Json} {o : Option Json} :
      atoi part = some i → 0 ≤ i → i < xs.length → xs[i.toNat]? = some c →
      Step m ell val (r0 :: r') c c' o →
      Step m ell val (part :: r0 :: r') (.arr xs) (.arr (xs.set i.toNat c')) o

/-- side condition under which the loop cannot run off the end of `parts` inside an array: an
    array node is never entered with a single part left (its parent handles that case in the
    array-destination block) -/
def Guard (parts : List Bytes) (node : Json) : Prop :=
  ∀ xs, node = .arr xs → 2 ≤ parts.length

/-- a successful traversal follows the six rules -/
theorem trav_step (m : Method) (ell : Bool) (val : Json) : ∀ (parts : List Bytes) (node : Json) (o : Option Json),
    parts ≠ [] → (trav m ell val parts node).2 = .ok o → Guard parts node →
    Step m ell val parts node (trav m ell val parts node).1 o := by
  intro parts
  induction parts with
  | nil => intro node o h; exact absurd rfl h
  | cons part rest ih =>
    intro node o _ hok hg
    cases node with
    | obj kvs =>
      rcases trav_obj_cases m ell val part rest kvs with ⟨arr, idxStr, rfl, hl, heq⟩ | ⟨rfl, heq⟩ | ⟨a', b', rfl, hns, heq⟩
      · rw [heq] at hok ⊢
        simp only [inArrayDest] at hok ⊢
        exact .special hl (Prod.ext rfl hok)
      · rw [heq] at hok ⊢
        exact .last (Prod.ext rfl hok)
      · rw [heq] at hok ⊢
        by_cases hc : (isNil (lookup part kvs) && m == .put) = true
        · rw [if_pos hc] at hok ⊢
          simp only [inNewObj] at hok ⊢
          simp at hc
          exact .create hc.1 hc.2 (ih (.obj []) o (by simp) hok (by intro xs hx; cases hx))
        · rw [if_neg hc] at hok ⊢
          cases hl : lookup part kvs with
          | none => simp [hl] at hok
          | some c =>
            simp only [hl, inObj] at hok hc ⊢
            refine .inObj hl (by simpa using hc) (fun arr harr => hns arr (harr ▸ hl)) (ih c o (by simp) hok ?_)
            intro xs hx
            have := hns xs (hx ▸ hl)
            cases b' with
            | nil => exact absurd rfl this
            | cons _ _ => simp
    | arr xs =>
      rcases trav_arr_cases m ell val part rest xs with ⟨_, heq⟩ | ⟨i, _, _, heq⟩ | ⟨i, c, ha, h0, hlt, hx, ⟨arr, idxStr, rfl, rfl, heq⟩ | ⟨hns, heq⟩⟩
      · rw [heq] at hok; simp at hok
      · rw [heq] at hok; simp at hok
      · rw [heq] at hok ⊢
        simp only [inArrayElem] at hok ⊢
        exact .specialArr ha h0 hlt hx (Prod.ext rfl hok)
      · rw [heq] at hok ⊢
        simp only [inArr] at hok ⊢
        have h2 := hg xs rfl
        cases rest with
        | nil => simp at h2
        | cons r0 r' =>
          refine .inArr ha h0 hlt hx (ih c o (by simp) hok ?_)
          intro ys hy
          cases r' with
          | nil => exact absurd rfl (hns ys r0 hy)
          | cons _ _ => simp
    | null => rw [trav_scalar (by simp) (by simp)] at hok; simp at hok
    | bool _ => rw [trav_scalar (by simp) (by simp)] at hok; simp at hok
    | num _ => rw [trav_scalar (by simp) (by simp)] at hok; simp at hok
    | str _ => rw [trav_scalar (by simp) (by simp)] at hok; simp at hok

/-- a traversal that wrote something (only GET does) follows the six rules — no side
    condition: running off the end of `parts` writes nothing -/
theorem trav_step_out (m : Method) (ell : Bool) (val : Json) : ∀ (parts : List Bytes) (node : Json) (v : Json),
    (trav m ell val parts node).2 = .ok (some v) →
    Step m ell val parts node (trav m ell val parts node).1 (some v) := by
  intro parts
  induction parts with
  | nil => intro node v h; simp [trav_nil] at h
  | cons part rest ih =>
    intro node v hok
    cases node with
    | obj kvs =>
      rcases trav_obj_cases m ell val part rest kvs with ⟨arr, idxStr, rfl, hl, heq⟩ | ⟨rfl, heq⟩ | ⟨a', b', rfl, hns, heq⟩
      · rw [heq] at hok ⊢
        simp only [inArrayDest] at hok ⊢
        exact .special hl (Prod.ext rfl hok)
      · rw [heq] at hok ⊢
        exact .last (Prod.ext rfl hok)
      · rw [heq] at hok ⊢
        by_cases hc : (isNil (lookup part kvs) && m == .put) = true
        · rw [if_pos hc] at hok ⊢
          simp only [inNewObj] at hok ⊢
          simp at hc
          exact .create hc.1 hc.2 (ih (.obj []) v hok)
        · rw [if_neg hc] at hok ⊢
          cases hl : lookup part kvs with
          | none => simp [hl] at hok
          | some c =>
            simp only [hl, inObj] at hok hc ⊢
            exact .inObj hl (by simpa using hc) (fun arr harr => hns arr (harr ▸ hl)) (ih c v hok)
    | arr xs =>
      rcases trav_arr_cases m ell val part rest xs with ⟨_, heq⟩ | ⟨i, _, _, heq⟩ | ⟨i, c, ha, h0, hlt, hx, ⟨arr, idxStr, rfl, rfl, heq⟩ | ⟨hns, heq⟩⟩
      · rw [heq] at hok; simp at hok
      · rw [heq] at hok; simp at hok
      · rw [heq] at hok ⊢
        simp only [inArrayElem] at hok ⊢
        exact .specialArr ha h0 hlt hx (Prod.ext rfl hok)
      · rw [heq] at hok ⊢
        simp only [inArr] at hok ⊢
        cases rest with
        | nil => simp [trav_nil] at hok
        | cons r0 r' => exact .inArr ha h0 hlt hx (ih c v hok)
    | null => rw [trav_scalar (by simp) (by simp)] at hok; simp at hok
    | bool _ => rw [trav_scalar (by simp) (by simp)] at hok; simp at hok
    | num _ => rw [trav_scalar (by simp) (by simp)] at hok; simp at hok
    | str _ => rw [trav_scalar (by simp) (by simp)] at hok; simp at hok

end CaddyModel.C12
