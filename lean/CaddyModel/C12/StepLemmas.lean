/-
C12 — the shape of a successful, effective traversal as an inductive relation (`Step`):
five rules instead of the loop. Every effect theorem is an induction over `Step`.
-/
import CaddyModel.C12.FrameLemmas

namespace CaddyModel.C12

/-- `Step m ell val parts node node' out`: the traversal of `parts` from `node` succeeds with
    output `out`, ends in one of the two places where something happens (the last-part arm or
    the array-destination arm) and leaves `node'` behind. -/
inductive Step (m : Method) (ell : Bool) (val : Json) : List Bytes → Json → Json → Option Json → Prop
  | special {part idxStr : Bytes} {kvs : Obj} {arr arr' : List Json} {o : Option Json} :
      lookup part kvs = some (.arr arr) → arrayOp m ell val idxStr arr = (arr', .ok o) →
      Step m ell val [part, idxStr] (.obj kvs) (.obj (replaceKey part (.arr arr') kvs)) o
  | last {part : Bytes} {kvs : Obj} {n' : Json} {o : Option Json} :
      lastOp m ell val part kvs (lookup part kvs) = (n', .ok o) →
      Step m ell val [part] (.obj kvs) n' o
  | create {part a : Bytes} {b : List Bytes} {kvs : Obj} {c' : Json} {o : Option Json} :
      isNil (lookup part kvs) = true → m = .put →
      Step m ell val (a :: b) (.obj []) c' o →
      Step m ell val (part :: a :: b) (.obj kvs) (.obj (setKey part c' kvs)) o
  | inObj {part a : Bytes} {b : List Bytes} {kvs : Obj} {c c' : Json} {o : Option Json} :
      lookup part kvs = some c → (isNil (some c) && m == .put) = false →
      (∀ arr, c = .arr arr → b ≠ []) →
      Step m ell val (a :: b) c c' o →
      Step m ell val (part :: a :: b) (.obj kvs) (.obj (replaceKey part c' kvs)) o
  | inArr {part r0 : Bytes} {r' : List Bytes} {xs : List Json} {i : Int} {c c' : Json} {o : Option Json} :
      atoi part = some i → 0 ≤ i → i < xs.length → xs[i.toNat]? = some c →
      Step m ell val (r0 :: r') c c' o →
      Step m ell val (part :: r0 :: r') (.arr xs) (.arr (xs.set i.toNat c')) o

/-- side condition under which the loop cannot run off the end of `parts` inside an array -/
def Guard (parts : List Bytes) (node : Json) (viaIndex : Bool) : Prop :=
  ∀ xs, node = .arr xs → viaIndex = false → 2 ≤ parts.length

theorem nestedEnd_obj_cons (a : Bytes) (q : List Bytes) (kvs : Obj) (b : Bool) :
    nestedEnd (a :: q) (.obj kvs) b = match lookup a kvs with | some c => nestedEnd q c false | none => false := by
  cases h : lookup a kvs <;> simp [nestedEnd, h]

theorem nestedEnd_arr_single (a : Bytes) (xs : List Json) (b : Bool) : nestedEnd [a] (.arr xs) b = b := by
  simp [nestedEnd]

theorem nestedEnd_arr_cons2 (a r0 : Bytes) (r' : List Bytes) (xs : List Json) (b : Bool) :
    nestedEnd (a :: r0 :: r') (.arr xs) b =
      match atoi a with
      | some i => if 0 ≤ i then (match xs[i.toNat]? with | some c => nestedEnd (r0 :: r') c true | none => false) else false
      | none => false := by
  cases h : atoi a with
  | none => simp [nestedEnd, h]
  | some i =>
    by_cases h0 : 0 ≤ i
    · cases hx : xs[i.toNat]? <;> simp [nestedEnd, h, h0, hx]
    · simp [nestedEnd, h, h0]

/-- a successful traversal that does not end on an element of an array-in-an-array follows
    the five rules -/
theorem trav_step (m : Method) (ell : Bool) (val : Json) : ∀ (parts : List Bytes) (node : Json) (b : Bool) (o : Option Json),
    parts ≠ [] → (trav m ell val parts node).2 = .ok o → nestedEnd parts node b = false → Guard parts node b →
    Step m ell val parts node (trav m ell val parts node).1 o := by
  intro parts
  induction parts with
  | nil => intro node b o h; exact absurd rfl h
  | cons part rest ih =>
    intro node b o _ hok hne hg
    cases node with
    | obj kvs =>
      rcases trav_obj_cases m ell val part rest kvs with ⟨arr, idxStr, rfl, hl, heq⟩ | ⟨rfl, heq⟩ | ⟨a', b', rfl, hns, heq⟩
      · rw [heq] at hok ⊢
        simp only [inArrayDest] at hok ⊢
        exact .special hl (Prod.ext rfl hok)
      · rw [heq] at hok ⊢
        exact .last (Prod.ext rfl hok)
      · rw [heq] at hok ⊢
        rw [nestedEnd_obj_cons] at hne
        by_cases hc : (isNil (lookup part kvs) && m == .put) = true
        · rw [if_pos hc] at hok ⊢
          simp only [inNewObj] at hok ⊢
          simp at hc
          refine .create hc.1 hc.2 (ih (.obj []) false o (by simp) hok ?_ ?_)
          · rw [nestedEnd_obj_cons]; simp [lookup]
          · intro xs hx; cases hx
        · rw [if_neg hc] at hok ⊢
          cases hl : lookup part kvs with
          | none => simp [hl] at hok
          | some c =>
            simp only [hl, inObj] at hok hne hc ⊢
            refine .inObj hl (by simpa using hc) (fun arr harr => hns arr (harr ▸ hl)) (ih c false o (by simp) hok hne ?_)
            intro xs hx _
            have := hns xs (hx ▸ hl)
            cases b' with
            | nil => exact absurd rfl this
            | cons _ _ => simp
    | arr xs =>
      rw [trav_arr] at hok ⊢
      cases ha : atoi part with
      | none => simp [ha] at hok
      | some i =>
        simp only [ha] at hok ⊢
        by_cases hoob : i < 0 ∨ i ≥ xs.length
        · simp [hoob] at hok
        · rw [if_neg hoob] at hok ⊢
          cases hx : xs[i.toNat]? with
          | none => simp [hx] at hok
          | some c =>
            simp only [hx, inArr] at hok ⊢
            cases rest with
            | nil =>
              -- the loop would run off the end here: excluded by `nestedEnd`/`Guard`
              rw [nestedEnd_arr_single] at hne
              have := hg xs rfl hne
              simp at this
            | cons r0 r' =>
              rw [nestedEnd_arr_cons2] at hne
              have h0 : 0 ≤ i := by omega
              simp only [ha, h0, if_true, hx] at hne
              exact .inArr ha h0 (by omega) hx (ih c true o (by simp) hok hne (by intro _ _ h; cases h))
    | null => rw [trav_scalar (by simp) (by simp)] at hok; simp at hok
    | bool _ => rw [trav_scalar (by simp) (by simp)] at hok; simp at hok
    | num _ => rw [trav_scalar (by simp) (by simp)] at hok; simp at hok
    | str _ => rw [trav_scalar (by simp) (by simp)] at hok; simp at hok

/-- a traversal that wrote something (only GET does) follows the five rules — no side
    condition: running off the end of `parts` writes nothing -/
theorem trav_step_out (m : Method) (ell : Bool) (val : Json) : ∀ (parts : List Bytes) (node : Json) (v : Json),
    (trav m ell val parts node).2 = .ok (some v) →
    Step m ell val parts node (trav m ell val parts node).1 (some v) := by
  intro parts
  induction parts with
  | nil => intro node v h; simp [trav_nil] at h
  | cons part rest ih =>
    intro node v hok
    cases node with
    | obj kvs =>
      rcases trav_obj_cases m ell val part rest kvs with ⟨arr, idxStr, rfl, hl, heq⟩ | ⟨rfl, heq⟩ | ⟨a', b', rfl, hns, heq⟩
      · rw [heq] at hok ⊢
        simp only [inArrayDest] at hok ⊢
        exact .special hl (Prod.ext rfl hok)
      · rw [heq] at hok ⊢
        exact .last (Prod.ext rfl hok)
      · rw [heq] at hok ⊢
        by_cases hc : (isNil (lookup part kvs) && m == .put) = true
        · rw [if_pos hc] at hok ⊢
          simp only [inNewObj] at hok ⊢
          simp at hc
          exact .create hc.1 hc.2 (ih (.obj []) v hok)
        · rw [if_neg hc] at hok ⊢
          cases hl : lookup part kvs with
          | none => simp [hl] at hok
          | some c =>
            simp only [hl, inObj] at hok hc ⊢
            exact .inObj hl (by simpa using hc) (fun arr harr => hns arr (harr ▸ hl)) (ih c v hok)
    | arr xs =>
      rw [trav_arr] at hok ⊢
      cases ha : atoi part with
      | none => simp [ha] at hok
      | some i =>
        simp only [ha] at hok ⊢
        by_cases hoob : i < 0 ∨ i ≥ xs.length
        · simp [hoob] at hok
        · rw [if_neg hoob] at hok ⊢
          cases hx : xs[i.toNat]? with
          | none => simp [hx] at hok
          | some c =>
            simp only [hx, inArr] at hok ⊢
            cases rest with
            | nil => simp [trav_nil] at hok
            | cons r0 r' => exact .inArr ha (by omega) (by omega) hx (ih c v hok)
    | null => rw [trav_scalar (by simp) (by simp)] at hok; simp at hok
    | bool _ => rw [trav_scalar (by simp) (by simp)] at hok; simp at hok
    | num _ => rw [trav_scalar (by simp) (by simp)] at hok; simp at hok
    | str _ => rw [trav_scalar (by simp) (by simp)] at hok; simp at hok

end CaddyModel.C12
