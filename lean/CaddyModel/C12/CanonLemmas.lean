/-
C12 — canonical form (object keys strictly increasing): preserved by every operation, and in
canonical form structural equality is equality as nested Go maps — which is what makes the
model's `==` on trees the code's `bytes.Equal` on `json.Marshal` output.
-/
import CaddyModel.C12.UniqueLemmas

namespace CaddyModel.C12

/-! ### `bytesLt` is a strict total order -/

theorem u8_lt_irrefl (a : UInt8) : ¬ a < a := by
  rw [UInt8.lt_iff_toNat_lt]; omega

theorem u8_trichotomy (a b : UInt8) (h1 : ¬ a < b) (h2 : ¬ b < a) : a = b := by
  rw [UInt8.lt_iff_toNat_lt] at h1 h2
  exact UInt8.toNat_inj.1 (by omega)

theorem u8_lt_trans {a b c : UInt8} (h1 : a < b) (h2 : b < c) : a < c := by
  rw [UInt8.lt_iff_toNat_lt] at *; omega

theorem u8_lt_asymm {a b : UInt8} (h1 : a < b) : ¬ b < a := by
  rw [UInt8.lt_iff_toNat_lt] at *; omega

theorem bytesLt_irrefl : ∀ a : Bytes, bytesLt a a = false
  | [] => by simp [bytesLt]
  | a :: as => by simp [bytesLt, u8_lt_irrefl, bytesLt_irrefl as]

theorem bytesLt_trans : ∀ {a b c : Bytes}, bytesLt a b = true → bytesLt b c = true → bytesLt a c = true
  | [], [], _, h, _ => by simp [bytesLt] at h
  | [], _ :: _, [], _, h => by simp [bytesLt] at h
  | [], _ :: _, _ :: _, _, _ => by simp [bytesLt]
  | _ :: _, [], _, h, _ => by simp [bytesLt] at h
  | _ :: _, _ :: _, [], _, h => by simp [bytesLt] at h
  | a :: as, b :: bs, c :: cs, h1, h2 => by
    simp only [bytesLt] at h1 h2 ⊢
    by_cases hab : a < b
    · by_cases hbc : b < c
      · simp [u8_lt_trans hab hbc]
      · by_cases hcb : c < b
        · simp [hbc, hcb] at h2
        · have : b = c := u8_trichotomy b c hbc hcb
          subst this; simp [hab]
    · by_cases hba : b < a
      · simp [hab, hba] at h1
      · have : a = b := u8_trichotomy a b hab hba
        subst this
        simp only [hab, if_false] at h1
        by_cases hbc : a < c
        · simp [hbc]
        · by_cases hcb : c < a
          · simp [hbc, hcb] at h2
          · simp only [hbc, hcb, if_false] at h2 ⊢
            exact bytesLt_trans h1 h2

theorem bytesLt_trichotomy : ∀ {a b : Bytes}, bytesLt a b = false → a ≠ b → bytesLt b a = true
  | [], [], _, h => absurd rfl h
  | [], _ :: _, h, _ => by simp [bytesLt] at h
  | _ :: _, [], _, _ => by simp [bytesLt]
  | a :: as, b :: bs, h, hne => by
    simp only [bytesLt] at h ⊢
    by_cases hab : a < b
    · simp [hab] at h
    · by_cases hba : b < a
      · simp [hba]
      · have : a = b := u8_trichotomy a b hab hba
        subst this
        simp only [hab, if_false] at h ⊢
        exact bytesLt_trichotomy h (fun e => hne (by rw [e]))

theorem bytesLt_ne {a b : Bytes} (h : bytesLt a b = true) : a ≠ b := by
  intro e; subst e; rw [bytesLt_irrefl] at h; cases h

theorem bytesLt_asymm {a b : Bytes} (h : bytesLt a b = true) : bytesLt b a = false := by
  cases hb : bytesLt b a with
  | false => rfl
  | true => have := bytesLt_trans h hb; rw [bytesLt_irrefl] at this; cases this

/-! ### sorted member lists -/

theorem cnO_cons (k : Bytes) (v : Json) (r : Obj) :
    canonicalO ((k, v) :: r) = (headAbove k r && canonical v && canonicalO r) := by
  rw [canonicalO]

/-- in a sorted list every key is above whatever the head is above -/
theorem allAbove : ∀ {m : Obj} {x : Bytes}, canonicalO m = true → headAbove x m = true →
    ∀ k v, (k, v) ∈ m → bytesLt x k = true
  | [], _, _, _, k, v, h => by simp at h
  | (k', v') :: r, x, hc, hx, k, v, h => by
    rw [cnO_cons] at hc; simp at hc
    simp only [headAbove] at hx
    simp at h
    rcases h with ⟨rfl, rfl⟩ | h
    · exact hx
    · exact bytesLt_trans hx (allAbove hc.2 hc.1.1 k v h)

theorem lookup_none_of_above : ∀ {m : Obj} {x : Bytes}, (∀ k v, (k, v) ∈ m → bytesLt x k = true) → lookup x m = none
  | [], _, _ => by simp [lookup]
  | (k', v') :: r, x, h => by
    have h1 := h k' v' (by simp)
    have hne : x ≠ k' := bytesLt_ne h1
    simp only [lookup, hne, if_false]
    exact lookup_none_of_above (fun k v hm => h k v (by simp [hm]))

theorem mem_of_lookup : ∀ {m : Obj} {k : Bytes} {v : Json}, lookup k m = some v → (k, v) ∈ m
  | [], _, _, h => by simp [lookup] at h
  | (k', v') :: r, k, v, h => by
    unfold lookup at h
    split at h
    · next hk => cases h; simp [hk]
    · simp [mem_of_lookup h]

theorem cn_lookup : ∀ {kvs : Obj} {k : Bytes} {c : Json}, canonicalO kvs = true → lookup k kvs = some c → canonical c = true
  | [], _, _, _, h => by simp [lookup] at h
  | (k', v') :: r, k, c, hu, h => by
    rw [cnO_cons] at hu; simp at hu
    unfold lookup at h
    split at h
    · cases h; exact hu.1.2
    · exact cn_lookup hu.2 h

theorem headAbove_replaceKey (x k : Bytes) (v : Json) : ∀ (m : Obj), headAbove x (replaceKey k v m) = headAbove x m
  | [] => by simp [replaceKey]
  | (k', v') :: r => by
    unfold replaceKey
    split
    · next hk => subst hk; simp [headAbove]
    · simp [headAbove]

theorem cn_replaceKey {k : Bytes} {v : Json} (hv : canonical v = true) : ∀ {m : Obj}, canonicalO m = true →
    canonicalO (replaceKey k v m) = true
  | [], _ => by simp [replaceKey, canonicalO]
  | (k', v') :: r, hu => by
    rw [cnO_cons] at hu; simp at hu
    unfold replaceKey
    split
    · next hk => rw [cnO_cons]; subst hk; simp [hu.1.1, hv, hu.2]
    · rw [cnO_cons, headAbove_replaceKey]
      simp [hu.1.1, hu.1.2, cn_replaceKey hv hu.2]

theorem headAbove_insertSorted {x k : Bytes} {v : Json} (hxk : bytesLt x k = true) : ∀ {m : Obj},
    headAbove x m = true → headAbove x (insertSorted k v m) = true
  | [], _ => by simp [insertSorted, headAbove, hxk]
  | (k', v') :: r, h => by
    unfold insertSorted
    split
    · simp [headAbove, hxk]
    · simpa [headAbove] using h

theorem cn_insertSorted {k : Bytes} {v : Json} (hv : canonical v = true) : ∀ {m : Obj}, canonicalO m = true →
    lookup k m = none → canonicalO (insertSorted k v m) = true
  | [], _, _ => by simp [insertSorted, canonicalO, headAbove, hv]
  | (k', v') :: r, hu, hn => by
    have hu' := hu
    rw [cnO_cons] at hu; simp at hu
    have hne : k ≠ k' := by intro e; subst e; simp [lookup] at hn
    have hn' : lookup k r = none := by simpa [lookup, hne] using hn
    unfold insertSorted
    split
    · next hlt => rw [cnO_cons]; simp [headAbove, hlt, hv, hu']
    · next hlt =>
      have hgt : bytesLt k' k = true := bytesLt_trichotomy (by simpa using hlt) hne
      rw [cnO_cons]
      simp [headAbove_insertSorted hgt hu.1.1, hu.1.2, cn_insertSorted hv hu.2 hn']

theorem cn_setKey {k : Bytes} {v : Json} {m : Obj} (hv : canonical v = true) (hu : canonicalO m = true) :
    canonicalO (setKey k v m) = true := by
  unfold setKey
  split
  · exact cn_replaceKey hv hu
  · next h => exact cn_insertSorted hv hu (by cases hl : lookup k m <;> simp_all)

theorem mem_eraseKey {k : Bytes} : ∀ {m : Obj} {e : Bytes × Json}, e ∈ eraseKey k m → e ∈ m
  | [], _, h => by simp [eraseKey] at h
  | (k', v') :: r, e, h => by
    unfold eraseKey at h
    split at h
    · simp [mem_eraseKey h]
    · simp at h
      rcases h with h | h
      · simp [h]
      · simp [mem_eraseKey h]

theorem headAbove_of_all {x : Bytes} : ∀ {m : Obj}, (∀ k v, (k, v) ∈ m → bytesLt x k = true) → headAbove x m = true
  | [], _ => by simp [headAbove]
  | (k', v') :: r, h => by simpa [headAbove] using h k' v' (by simp)

theorem cn_eraseKey {k : Bytes} : ∀ {m : Obj}, canonicalO m = true → canonicalO (eraseKey k m) = true
  | [], _ => by simp [eraseKey, canonicalO]
  | (k', v') :: r, hu => by
    have hu0 := hu
    rw [cnO_cons] at hu; simp at hu
    unfold eraseKey
    split
    · exact cn_eraseKey hu.2
    · rw [cnO_cons]
      have : headAbove k' (eraseKey k r) = true :=
        headAbove_of_all (fun a b hm => allAbove hu.2 hu.1.1 a b (mem_eraseKey hm))
      simp [this, hu.1.2, cn_eraseKey hu.2]

theorem cnL_iff : ∀ (xs : List Json), canonicalL xs = true ↔ ∀ x ∈ xs, canonical x = true
  | [] => by simp [canonicalL]
  | x :: xs => by rw [canonicalL]; simp [cnL_iff xs]

theorem cn_arr (xs : List Json) : canonical (.arr xs) = canonicalL xs := by rw [canonical]
theorem cn_obj (kvs : Obj) : canonical (.obj kvs) = canonicalO kvs := by rw [canonical]

/-! ### preserved by every operation (the proofs of `UniqueLemmas.lean`, for `canonical`) -/

theorem cnL_set {xs : List Json} {i : Nat} {c : Json} (h : canonicalL xs = true) (hc : canonical c = true) :
    canonicalL (xs.set i c) = true := by
  rw [cnL_iff] at h ⊢
  intro x hx
  rcases List.mem_or_eq_of_mem_set hx with hx | hx
  · exact h x hx
  · rw [hx]; exact hc

theorem cnL_getElem {xs : List Json} {i : Nat} {c : Json} (h : canonicalL xs = true) (hx : xs[i]? = some c) :
    canonical c = true := by
  rw [cnL_iff] at h
  exact h c (List.mem_of_getElem? hx)

theorem cn_arrayOp {m : Method} {ell : Bool} {val : Json} {idxStr : Bytes} {arr : List Json}
    (hval : canonical val = true) (harr : canonicalL arr = true) :
    canonicalL (arrayOp m ell val idxStr arr).1 = true := by
  have happ : ∀ ys, canonicalL ys = true → canonicalL (arr ++ ys) = true := by
    intro ys hys; rw [cnL_iff] at harr hys ⊢
    intro x hx; rcases List.mem_append.1 hx with hx | hx
    · exact harr x hx
    · exact hys x hx
  cases m <;> simp only [arrayOp] <;> (repeat' split) <;> try exact harr
  all_goals first
    | (apply happ; simp [canonicalL, hval]; done)
    | (apply happ; rename_i vs _; have := hval; rw [cn_arr] at this; exact this)
    | (exact cnL_set harr hval)
    | (rw [cnL_iff] at harr ⊢; intro x hx
       first
        | (rcases List.mem_insertIdx (by omega) |>.1 hx with hx | hx
           · rw [hx]; exact hval
           · exact harr x hx)
        | exact harr x (List.mem_of_mem_eraseIdx hx))

theorem cnL_append {xs ys : List Json} (hx : canonicalL xs = true) (hy : canonicalL ys = true) :
    canonicalL (xs ++ ys) = true := by
  rw [cnL_iff] at hx hy ⊢
  intro x h; rcases List.mem_append.1 h with h | h
  · exact hx x h
  · exact hy x h

theorem cn_lastOp {m : Method} {ell : Bool} {val : Json} {part : Bytes} {kvs : Obj}
    (hval : canonical val = true) (hu : canonicalO kvs = true) :
    canonical (lastOp m ell val part kvs (lookup part kvs)).1 = true := by
  cases m with
  | get => simp only [lastOp, cn_obj]; exact hu
  | put => simp only [lastOp]; split <;> simp only [cn_obj] <;> first | exact hu | exact cn_setKey hval hu
  | patch => simp only [lastOp]; split <;> simp only [cn_obj] <;> first | exact hu | exact cn_setKey hval hu
  | delete => simp only [lastOp]; split <;> simp only [cn_obj] <;> first | exact hu | exact cn_eraseKey hu
  | post =>
    simp only [lastOp]
    cases hl : lookup part kvs with
    | none => simp only [cn_obj]; exact cn_setKey hval hu
    | some c =>
      cases c with
      | arr arr =>
        have harr : canonicalL arr = true := by have := cn_lookup hu hl; rwa [cn_arr] at this
        simp only
        split
        · cases val with
          | arr vs =>
            simp only [cn_obj]
            have hvs : canonicalL vs = true := by rwa [cn_arr] at hval
            exact cn_setKey (by rw [cn_arr]; exact cnL_append harr hvs) hu
          | _ => simp only [cn_obj]; exact hu
        · simp only [cn_obj]
          exact cn_setKey (by rw [cn_arr]; exact cnL_append harr (by simp [canonicalL, hval])) hu
      | _ => simp only [cn_obj]; exact cn_setKey hval hu

theorem cn_trav (m : Method) (ell : Bool) (val : Json) (hval : canonical val = true) :
    ∀ (parts : List Bytes) (node : Json), canonical node = true → canonical (trav m ell val parts node).1 = true := by
  intro parts
  induction parts with
  | nil => intro node h; rw [trav_nil]; exact h
  | cons part rest ih =>
    intro node hu
    cases node with
    | obj kvs =>
      rw [cn_obj] at hu
      rcases trav_obj_cases m ell val part rest kvs with ⟨arr, idxStr, rfl, hl, heq⟩ | ⟨rfl, heq⟩ | ⟨a', b', rfl, hns, heq⟩
      · rw [heq]; simp only [inArrayDest, cn_obj]
        apply cn_replaceKey _ hu
        rw [cn_arr]
        have := cn_lookup hu hl
        rw [cn_arr] at this
        exact cn_arrayOp hval this
      · rw [heq]; exact cn_lastOp hval hu
      · rw [heq]
        split
        · simp only [inNewObj, cn_obj]
          exact cn_setKey (ih _ (by simp [canonical, canonicalO])) hu
        · split
          · rw [cn_obj]; exact hu
          · next c hl =>
            simp only [inObj, cn_obj]
            exact cn_replaceKey (ih c (cn_lookup hu hl)) hu
    | arr xs =>
      rw [cn_arr] at hu
      rcases trav_arr_cases m ell val part rest xs with ⟨_, heq⟩ | ⟨i, _, _, heq⟩ | ⟨i, c, ha, h0, hlt, hx, ⟨arr, idxStr, rfl, rfl, heq⟩ | ⟨_, heq⟩⟩
      · rw [heq, cn_arr]; exact hu
      · rw [heq, cn_arr]; exact hu
      · rw [heq]; simp only [inArrayElem, cn_arr]
        apply cnL_set hu
        rw [cn_arr]
        have := cnL_getElem hu hx
        rw [cn_arr] at this
        exact cn_arrayOp hval this
      · rw [heq]; simp only [inArr, cn_arr]
        exact cnL_set hu (ih c (cnL_getElem hu hx))
    | null => rw [trav_scalar (by simp) (by simp)]; exact hu
    | bool _ => rw [trav_scalar (by simp) (by simp)]; exact hu
    | num _ => rw [trav_scalar (by simp) (by simp)]; exact hu
    | str _ => rw [trav_scalar (by simp) (by simp)]; exact hu

/-- the body is a tree in canonical form (or no tree at all) -/
def bodyCN : Body → Prop
  | .val j => canonical j = true
  | _ => True

theorem cn_bodyVal {b : Body} (h : bodyCN b) : canonical (bodyVal b) = true := by
  cases b <;> simp_all [bodyVal, bodyCN, canonical]

theorem cn_access {m : Method} {path : Bytes} {body : Body} {root : Json} (hb : bodyCN body)
    (hu : canonical root = true) : canonical (access m path body root).1 = true := by
  unfold access
  split
  · exact hu
  · split
    · exact hu
    · exact cn_trav _ _ _ (cn_bodyVal hb) _ _ hu

/-! ### state level -/

/-- canonical form everywhere in the in-memory tree and in the last loaded configuration -/
structure CNS (s : State) : Prop where
  tree : canonical s.rawCfg = true
  loaded : ∀ j, s.rawCfgJSON = some j → canonical j = true

theorem cns_init : CNS initState := ⟨by decide, by intro j h; cases h⟩

theorem cn_cfgOf {root : Json} (h : canonical root = true) : canonical (cfgOf root) = true := by
  cases root <;> simp [cfgOf, canonical]
  next kvs =>
    rw [cn_obj] at h
    cases hl : lookup cfgKey kvs with
    | none => simp [encodeOf, canonical]
    | some c => simp [encodeOf]; exact cn_lookup h hl

theorem cn_restore {s : State} {root : Json} (hs : CNS s) (hr : canonical root = true) : CNS (restore s root) := by
  refine ⟨?_, hs.loaded⟩
  unfold restore
  simp only
  split
  · cases root <;> simp only [setCfg] <;> try exact hr
    next kvs =>
      rw [cn_obj] at hr ⊢
      apply cn_setKey _ hr
      cases hj : s.rawCfgJSON with
      | none => simp [encodeOf, canonical]
      | some j => simp [encodeOf]; exact hs.loaded j hj
  · cases root <;> simp only [eraseCfg] <;> try exact hr
    next kvs => rw [cn_obj] at hr ⊢; exact cn_eraseKey hr

theorem cn_commit {env : Env} {force : Bool} {s : State} {root : Json} (hs : CNS s) (hr : canonical root = true) :
    CNS (commit env force s root).1 := by
  unfold commit
  split
  · exact ⟨hr, hs.loaded⟩
  · split
    · exact cn_restore hs hr
    · split
      · exact cn_restore hs hr
      · exact ⟨hr, by intro j hj; simp at hj; subst hj; exact cn_cfgOf hr⟩

theorem cn_mutate {env : Env} {m : Method} {path : Bytes} {body : Body} {force : Bool} {s : State}
    (hs : CNS s) (hb : bodyCN body) : CNS (mutate env m path body force s).1 := by
  have hr := cn_access (m := m) (path := path) hb hs.tree
  unfold mutate
  split
  · next root e heq => rw [heq] at hr; exact ⟨hr, hs.loaded⟩
  · next root heq => rw [heq] at hr; exact ⟨hr, hs.loaded⟩
  · next root out heq => rw [heq] at hr; exact cn_commit hs hr

theorem cn_change {env : Env} {m : Method} {path : Bytes} {body : Body} {ifm : Bytes} {force : Bool} {s : State}
    (hs : CNS s) (hb : bodyCN body) : CNS (change env m path body ifm force s).1 := by
  unfold change
  split
  · exact cn_mutate hs hb
  · split
    · exact hs
    · split
      · split
        · exact hs
        · exact hs
        · split
          · exact hs
          · exact cn_mutate hs hb
      · exact hs

/-- the registered adapter produces trees in canonical form -/
def adaptCN (env : Env) : Prop := ∀ b j, bodyCN b → env.adapt b = some j → canonical j = true

theorem cn_serve {env : Env} {r : Req} {s : State} (ha : adaptCN env) (hs : CNS s) (hb : bodyCN r.body) :
    CNS (serve env r s).1 := by
  have hcfg : ∀ p, CNS (handleConfig env r p s).1 := by
    intro p
    unfold handleConfig
    split
    · split <;> exact hs
    · exact hs
    · split
      · exact hs
      · split
        · exact hs
        · apply cn_change hs
          split
          · trivial
          · exact hb
  unfold serve
  split
  · exact hs
  · exact hs
  · exact hcfg _
  · unfold handleLoad
    split
    · exact hs
    · split
      · exact hs
      · next b hb' =>
        apply cn_change hs
        unfold adaptByContentType at hb'
        split at hb' <;> try (cases hb'; exact hb)
        all_goals try cases hb'
        next =>
          split at hb'
          · next j hj => cases hb'; exact ha _ _ hb hj
          · cases hb'
  · rw [handleAdapt_pure]; exact hs
  · split
    · exact hs
    · exact hs
    · split
      · exact hcfg _
      · exact hs
      · exact hs

/-! ### in canonical form, equal as maps means equal -/

theorem mapEqO_drop_head {k : Bytes} {v' : Json} {r' : Obj} : ∀ {r : Obj}, (∀ a b, (a, b) ∈ r → a ≠ k) →
    mapEqO r ((k, v') :: r') = mapEqO r r'
  | [], _ => by simp [mapEqO]
  | (k2, v2) :: t, h => by
    have hne : k2 ≠ k := h k2 v2 (by simp)
    rw [mapEqO, mapEqO]
    simp only [lookup, hne, if_false]
    rw [mapEqO_drop_head (fun a b hm => h a b (by simp [hm]))]

mutual
theorem mapEq_eq : ∀ (a b : Json), canonical a = true → canonical b = true → mapEq a b = true → a = b
  | .null, b, _, _, h => by cases b <;> simp_all [mapEq]
  | .bool x, b, _, _, h => by cases b <;> simp_all [mapEq]
  | .num x, b, _, _, h => by cases b <;> simp_all [mapEq]
  | .str x, b, _, _, h => by cases b <;> simp_all [mapEq]
  | .arr xs, b, ha, hb, h => by
    cases b <;> simp only [mapEq] at h <;> try cases h
    next ys =>
      rw [cn_arr] at ha hb
      rw [mapEqL_eq xs ys ha hb h]
  | .obj kvs, b, ha, hb, h => by
    cases b <;> simp only [mapEq] at h <;> try cases h
    next kvs' =>
      rw [cn_obj] at ha hb
      simp only [Bool.and_eq_true, List.all_eq_true] at h
      rw [mapEqO_eq kvs kvs' ha hb (fun e he => h.1 e he) h.2]
theorem mapEqL_eq : ∀ (xs ys : List Json), canonicalL xs = true → canonicalL ys = true → mapEqL xs ys = true → xs = ys
  | [], ys, _, _, h => by cases ys <;> simp_all [mapEqL]
  | x :: xs, ys, ha, hb, h => by
    cases ys with
    | nil => simp [mapEqL] at h
    | cons y ys =>
      rw [canonicalL] at ha hb; simp at ha hb
      rw [mapEqL] at h; simp at h
      rw [mapEq_eq x y ha.1 hb.1 h.1, mapEqL_eq xs ys ha.2 hb.2 h.2]
theorem mapEqO_eq : ∀ (a b : Obj), canonicalO a = true → canonicalO b = true →
    (∀ e ∈ b, (lookup e.1 a).isSome = true) → mapEqO a b = true → a = b
  | [], b, _, _, hin, _ => by
    cases b with
    | nil => rfl
    | cons e _ => have := hin e (by simp); simp [lookup] at this
  | (k, v) :: r, b, ha, hb, hin, h => by
    have ha0 := ha
    rw [cnO_cons] at ha; simp at ha
    rw [mapEqO] at h; simp at h
    cases b with
    | nil => simp [lookup] at h
    | cons e r' =>
      obtain ⟨k', v'⟩ := e
      have hb0 := hb
      rw [cnO_cons] at hb; simp at hb
      -- the heads carry the same key
      have hk : k = k' := by
        cases h1 : bytesLt k k' with
        | true =>
          have : lookup k ((k', v') :: r') = none :=
            lookup_none_of_above (fun a b hm => by
              simp at hm
              rcases hm with ⟨rfl, rfl⟩ | hm
              · exact h1
              · exact bytesLt_trans h1 (allAbove hb.2 hb.1.1 a b hm))
          rw [this] at h; simp at h
        | false =>
          cases h2 : bytesLt k' k with
          | true =>
            have : lookup k' ((k, v) :: r) = none :=
              lookup_none_of_above (fun a b hm => by
                simp at hm
                rcases hm with ⟨rfl, rfl⟩ | hm
                · exact h2
                · exact bytesLt_trans h2 (allAbove ha.2 ha.1.1 a b hm))
            have := hin (k', v') (by simp)
            simp_all
          | false =>
            apply Classical.byContradiction
            intro hne
            have := bytesLt_trichotomy h1 hne
            rw [h2] at this; cases this
      subst hk
      simp only [lookup, if_true] at h
      have hv : v = v' := mapEq_eq v v' ha.1.2 hb.1.2 h.1
      subst hv
      have hrk : ∀ a b, (a, b) ∈ r → a ≠ k := fun a b hm => (bytesLt_ne (allAbove ha.2 ha.1.1 a b hm)).symm
      have hr'k : ∀ a b, (a, b) ∈ r' → a ≠ k := fun a b hm => (bytesLt_ne (allAbove hb.2 hb.1.1 a b hm)).symm
      have htail : r = r' := by
        apply mapEqO_eq r r' ha.2 hb.2
        · intro e he
          have := hin e (by simp [he])
          have hne : e.1 ≠ k := hr'k e.1 e.2 he
          simpa [lookup, hne] using this
        · rw [← mapEqO_drop_head hrk]; exact h.2
      rw [htail]
end

theorem lookup_of_mem_canonical : ∀ {m : Obj} {k : Bytes} {v : Json}, canonicalO m = true → (k, v) ∈ m → lookup k m = some v
  | [], _, _, _, h => by simp at h
  | (k', v') :: r, k, v, hc, h => by
    have hc0 := hc
    rw [cnO_cons] at hc; simp at hc
    simp at h
    rcases h with ⟨rfl, rfl⟩ | h
    · simp [lookup]
    · have hne : k ≠ k' := (bytesLt_ne (allAbove hc.2 hc.1.1 k v h)).symm
      simp only [lookup, hne, if_false]
      exact lookup_of_mem_canonical hc.2 h

theorem mapEqO_of_members {b : Obj} : ∀ {r : Obj}, (∀ k v, (k, v) ∈ r → lookup k b = some v ∧ mapEq v v = true) →
    mapEqO r b = true
  | [], _ => by simp [mapEqO]
  | (k, v) :: t, h => by
    rw [mapEqO]
    have h1 := h k v (by simp)
    have ht : mapEqO t b = true := mapEqO_of_members (r := t) (fun a c hm => h a c (List.mem_cons_of_mem _ hm))
    simp [h1.1, h1.2, ht]

mutual
theorem mapEq_refl : ∀ (a : Json), canonical a = true → mapEq a a = true
  | .null, _ => by simp [mapEq]
  | .bool _, _ => by simp [mapEq]
  | .num _, _ => by simp [mapEq]
  | .str _, _ => by simp [mapEq]
  | .arr xs, h => by rw [cn_arr] at h; simp only [mapEq]; exact mapEqL_refl xs h
  | .obj kvs, h => by
    rw [cn_obj] at h
    simp only [mapEq, Bool.and_eq_true, List.all_eq_true]
    refine ⟨fun e he => by rw [lookup_of_mem_canonical h (show (e.1, e.2) ∈ kvs from he)]; rfl, ?_⟩
    exact mapEqO_of_members (fun k v hm => ⟨lookup_of_mem_canonical h hm, mapEq_refl_mem kvs h k v hm⟩)
theorem mapEqL_refl : ∀ (xs : List Json), canonicalL xs = true → mapEqL xs xs = true
  | [], _ => by simp [mapEqL]
  | x :: xs, h => by
    rw [canonicalL] at h; simp at h
    rw [mapEqL]; simp [mapEq_refl x h.1, mapEqL_refl xs h.2]
theorem mapEq_refl_mem : ∀ (m : Obj), canonicalO m = true → ∀ k v, (k, v) ∈ m → mapEq v v = true
  | [], _, _, _, h => by simp at h
  | (k', v') :: r, hc, k, v, h => by
    rw [cnO_cons] at hc; simp at hc
    simp at h
    rcases h with ⟨_, rfl⟩ | h
    · exact mapEq_refl _ hc.1.2
    · exact mapEq_refl_mem r hc.2 k v h
end

end CaddyModel.C12
