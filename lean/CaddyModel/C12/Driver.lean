/-
C12 line-protocol driver.

  hist <step>;<step>;…        a whole history against a fresh process state (after caddy.Stop())
      step  = <M>,<path>,<body>,<ifmatch>,<flags>
      M     = G | P (POST) | U (PUT) | A (PATCH) | D (DELETE) | H (anything else → 405)
      path  = hex of r.URL.Path; must start with "/config/" or "/id/", or be "/load" or "/adapt"
      body  = `-` (no body) | `!` (undecodable JSON) | tree
      tree  = n | t | f | #<num># | s<hex>. | [tree…] | {<keyhex>.tree …}   (keys strictly sorted)
      ifm   = `-` | e<k> (the ETag step k returned) | p<k>.<pathhex> (that ETag's hash, other path)
            | w<pathhex> (well-formed, wrong hash) | r<hex> (raw header that is NOT of the form "a b")
      flags = `-` | [f][one Content-Type letter]  (f = Cache-Control: must-revalidate; see `ctOfChar`)
  answer: per step  <resp>  for G/H, and  <resp>/<config>/<ids>/<probe loads>/<probe saw>/<loads>/<autosave file>  otherwise
          (loads = how often any configuration was started)
      resp  = g:<tree|->:<etag path hex> | w | d:<tree> (/adapt) | r | amb | F<status>:<class>
            | ww (/load, 200 with adapter warnings) | dw:<tree> (/adapt with warnings)
              (a rejected /load answers F<status>:<class> whatever the adapter warned about; the harness prints
              W200:<class> if it meets the behaviour before /repo bbbf7b6: warnings first, status 200, error appended)
      ids   = for every distinct "@id" text in the config, sorted: <hex>=<resp of GET /id/<text>, etag path only>
  cas <k> <n>                 k concurrent clients × n conditional increments → `cas <k*n>`
  pull <tree T> <pulled: tree|!>
                              load {"admin":{"config":{"load":{"module":"c12pull"}}},"apps":{"c12":T}}; the loader
                              hands out <pulled>; then PATCH /id/<first id> {"w":1}; answer <status of the load>/<config>/<loads>/<autosave file>/<patch answer>/<config>
  cli <init tree> <file: tree|!|-> <flags>
                              `caddy reload` (the real command function) against the instance running <init>, over its
                              real admin listener; answer <ok|presend|F<status>:<class>>/<config>/<loads caused>
  gg <tree> <pathA> <pathB> [<pathC> [<pathD>]]
                              overlapping GETs after loading <tree>: GET A is served with a ResponseWriter whose
                              first Write performs complete GETs of B, C, D through the same handler before it
                              looks at its argument; answer: the GET answers of A|B|C|D
  ovl <tree> <M,path,body> <M,path,body> <GET path hex>
                              after loading <tree>: writer A is held inside changeConfig by the probe app while writer B
                              and the GET wait; answer: outcome of the serial order A;B;R | outcome of A;R;B
  wire <tree> <M> <target hex> <body>
                              after loading <tree>: one request whose request line carries <target> verbatim, through
                              a real http.Server in front of the handler; answer <resp | B400>/<config>/<ids>
  idrace <n> | peek <k> <n>   concurrency samples on the real handler for Regions.lean: the two critical
                              sections of /id/ requests; a rejected write is invisible to concurrent readers
  clean <p> | join <a> <b> | fields <s> | atoi <s> | itoa <n> | route <p>
                              the byte-level models of path.Clean, path.Join, strings.Fields,
                              strconv.Atoi/Itoa and the ServeMux dispatch, against the real functions
-/
import CaddyModel.C12.Model
import CaddyModel.C12.Wire
import CaddyModel.C12.Warn

namespace CaddyModel.C12

/-! #### tree encoding -/

def hexOf (b : Bytes) : String := if b.isEmpty then "" else Hex.encode b

mutual
partial def encTree : Json → String
  | .null => "n"
  | .bool true => "t"
  | .bool false => "f"
  | .num t => "#" ++ bytesToString t ++ "#"
  | .str s => "s" ++ hexOf s ++ "."
  | .arr xs => "[" ++ String.join (xs.map encTree) ++ "]"
  | .obj kvs => "{" ++ String.join (kvs.map fun (k, v) => hexOf k ++ "." ++ encTree v) ++ "}"
end

def isHexChar (c : Char) : Bool := ('0' ≤ c && c ≤ '9') || ('a' ≤ c && c ≤ 'f')

def takeHex : List Char → List Char → Option (Bytes × List Char)
  | '.' :: r, acc => match Hex.decodeChars acc.reverse with
    | some b => some (b, r)
    | none => none
  | c :: r, acc => if isHexChar c then takeHex r (c :: acc) else none
  | [], _ => none

def allDigits (l : List Char) : Bool := !l.isEmpty && l.all (fun c => '0' ≤ c && c ≤ '9')

/-- no exponent-form numbers in the protocol (as an `@id` value — which any PATCH can make of
    them — they are outside the model's domain, see `Model.memberBreaks`) -/
def expTokens : List String := []

/-- the number texts both sides accept: plain decimals that `json.Marshal` prints unchanged
    (≤ 15 significant digits, 1e-6 ≤ |x| < 1e15 or 0, no "-0") -/
def canonicalNum (s : List Char) : Bool :=
  if expTokens.contains (String.ofList s) then true else
  let u := if s.head? = some '-' then s.drop 1 else s
  let ip := u.takeWhile (· ≠ '.')
  let rest := u.dropWhile (· ≠ '.')
  let fp := rest.drop 1
  allDigits ip && (ip == ['0'] || ip.head? ≠ some '0') &&
  (rest.isEmpty || (allDigits fp && fp.getLast? ≠ some '0')) &&
  ip.length + fp.length ≤ 15 &&
  !(s.head? = some '-' && ip == ['0'] && rest.isEmpty) &&
  !(ip == ['0'] && !rest.isEmpty && (fp.takeWhile (· = '0')).length > 5)

def asciiOnly (b : Bytes) : Bool := b.all (· < 128)

def lower (b : Bytes) : Bytes := b.map fun c => if 65 ≤ c && c ≤ 90 then c + 32 else c

/-- names the harness world must not meet: other top-level `Config` fields (matched
    case-insensitively by encoding/json), `..` path components (index entries would leave
    /config/), keys containing `"@id` (not modelled, see `Model.memberBreaks`) -/
def hasInfix (pat : Bytes) : Bytes → Bool
  | [] => pat.isEmpty
  | c :: r => pat.isPrefixOf (c :: r) || hasInfix pat r

def forbiddenName (k : Bytes) : Bool :=
  [str "admin", str "logging", str "storage"].contains (lower k) ||
  (lower k == str "apps" && k != str "apps") ||
  (splitSlash k).contains dotdot ||
  hasInfix [34, 64, 105, 100] k        -- `"@id` inside a key: the textual idRegexp fires there too

mutual
partial def parseTree : List Char → Option (Json × List Char)
  | 'n' :: r => some (.null, r)
  | 't' :: r => some (.bool true, r)
  | 'f' :: r => some (.bool false, r)
  | '#' :: r =>
    let t := r.takeWhile (· ≠ '#')
    match r.dropWhile (· ≠ '#') with
    | '#' :: r' => if canonicalNum t then some (.num (t.map fun c => c.toNat.toUInt8), r') else none
    | _ => none
  | 's' :: r => match takeHex r [] with
    | some (b, r') => if asciiOnly b then some (.str b, r') else none
    | none => none
  | '[' :: r => parseElems r []
  | '{' :: r => parseMembers r [] none
  | _ => none
partial def parseElems : List Char → List Json → Option (Json × List Char)
  | ']' :: r, acc => some (.arr acc.reverse, r)
  | cs, acc => match parseTree cs with
    | some (j, r) => parseElems r (j :: acc)
    | none => none
partial def parseMembers : List Char → Obj → Option Bytes → Option (Json × List Char)
  | '}' :: r, acc, _ => some (.obj acc.reverse, r)
  | cs, acc, prev => match takeHex cs [] with
    | some (k, r) =>
      if !asciiOnly k || forbiddenName k then none
      else if (match prev with | some p => !bytesLt p k | none => false) then none
      else match parseTree r with
        | some (v, r') => parseMembers r' ((k, v) :: acc) (some k)
        | none => none
    | none => none
end

def parseWholeTree (s : String) : Option Json :=
  match parseTree s.toList with
  | some (j, []) => some j
  | _ => none

/-! #### the harness world: what the registered apps accept -/

def appRejects : Json → Bool
  | .obj m => lookup (str "reject") m == some (.bool true)
  | _ => false

def appsOK : Json → Bool
  | .null => true
  | .obj as => as.all fun (k, v) => k == str "c12" && v != .null && !appRejects v
  | _ => false

/-- does caddy (with only the probe app `c12` registered) load this stripped document? -/
def probeAccepts : Json → Bool
  | .null => true
  | .obj kvs => kvs.all fun (k, v) => k == str "apps" && appsOK v
  | _ => false

/-- executable stand-in for xxhash: injective, never contains a space or a quote, never
    equals the harness's "wrong hash" `0000000000000000` -/
def hashText : Option Json → Bytes
  | none => str "h-"
  | some j => str ("h" ++ encTree j)

/-- the harness world's one config adapter ("c12wrap"): X ↦ {"apps":{"c12":X}}; an empty or
    undecodable body is an adapter error -/
def wrapAdapter : Body → Option Json
  | .val j => some (.obj [(str "apps", .obj [(str "c12", j)])])
  | _ => none

def drvEnv : Env := ⟨hashText, probeAccepts, wrapAdapter⟩

/-- … and warns about a body that is an object with a member "warn" -/
def drvWarns : Body → Bool
  | .val (.obj kvs) => (lookup (str "warn") kvs).isSome
  | _ => false

/-- what the probe app was started with, if the running config has one -/
def probeOf : Option Json → Option Json
  | some (.obj kvs) => match lookup (str "apps") kvs with
    | some (.obj as) => lookup (str "c12") as
    | _ => none
  | _ => none

/-! #### steps -/

def showErr : Err → String
  | .decode => "decode" | .noPath => "nopath" | .badIndex => "badindex" | .oob => "oob"
  | .notArray => "notarray" | .traversal => "traversal" | .keyExists => "exists" | .keyMissing => "missing"

def showFail : Fail → String
  | .access e => showErr e
  | .ctype => "ctype" | .method => "method" | .ifMatchQuote => "ifmatch-quote" | .ifMatchFormat => "ifmatch-format"
  | .ifMatchAccess e => showErr e     -- same message text as a failing mutation; always 500
  | .precondition => "precondition" | .index => "index" | .load => "load"
  | .idMissing => "id-missing" | .idMalformed => "id-malformed" | .idUnknown => "id-unknown"
  | .notFound => "notfound" | .panic => "panic"
  | .ctInvalid => "ct-invalid" | .ctMalformed => "ct-malformed" | .adapterUnknown => "adapter-unknown"
  | .adaptFailed => "adapt-failed" | .adaptEncode => "adapt-encode"
  | .viaLoad f => "L-" ++ showFail f

def showStatus (f : Fail) (isGet : Bool) : Nat :=
  match f with
  | .access e => if isGet then 400 else statusOf (.access e)
  | f => statusOf f

def showResp (isGet : Bool) : Resp → String
  | .okGet out p => "g:" ++ (match out with | some j => encTree j | none => "-") ++ ":" ++ Hex.encode p
  | .okWrite => "w"
  | .okAdapt j => "d:" ++ encTree j
  | .redirect => "r"
  | .ambiguous => "amb"
  | .fail f => "F" ++ toString (showStatus f isGet) ++ ":" ++ showFail f

def showIdResp : Resp → String
  | .okGet _ p => Hex.encode p
  | r => showResp true r

/-- every `@id` value of the tree as the text a client would put after /id/ (the JSON text) -/
partial def idTexts : Json → List Bytes
  | .arr xs => xs.flatMap idTexts
  | .obj kvs => kvs.flatMap fun (k, v) =>
      if k == idKey then (match v with | .str s => [s] | .num t => [t] | _ => []) else idTexts v
  | _ => []

def insertUniq (b : Bytes) : List Bytes → List Bytes
  | [] => [b]
  | x :: r => if b == x then x :: r else if bytesLt b x then b :: x :: r else x :: insertUniq b r

def getReq (p : Bytes) : Req := ⟨.get, p, .empty, [], false, .json⟩

def showIds (s : State) : String :=
  let ids := (idTexts (cfgOf s.rawCfg)).foldl (fun acc b => insertUniq b acc) []
  ",".intercalate (ids.map fun t => hexOf t ++ "=" ++ showIdResp (serve drvEnv (getReq (idPrefix ++ t)) s).2)

structure Drv where
  s : State := initState
  etags : List (Option (Bytes × Bytes)) := []     -- per step: (etag path, hash text)
  probeLoads : Nat := 0
  probeSaw : Option Json := none
  saved : Option Json := none     -- the autosave file: the last accepted non-null document
  out : List String := []

def parseMethod : String → Option HMethod
  | "G" => some .get | "P" => some .post | "U" => some .put | "A" => some .patch
  | "D" => some .delete | "H" => some .other
  | _ => none

def parseBody : String → Option Body
  | "-" => some .empty
  | "!" => some .bad
  | s => (parseWholeTree s).map .val

def wrongHash : Bytes := str "0000000000000000"

def mkHeader (p h : Bytes) : Bytes := quote :: p ++ 32 :: h ++ [quote]

def parseIfMatch (etags : List (Option (Bytes × Bytes))) (s : String) : Option Bytes :=
  match s.toList with
  | ['-'] => some []
  | 'e' :: k => match (String.ofList k).toNat? with
    | some k => match etags[k]? with
      | some (some (p, h)) => some (mkHeader p h)
      | _ => some []
    | none => none
  | 'p' :: r =>
    match (String.ofList r).splitOn "." with
    | [k, ph] => match k.toNat?, Hex.decode ph with
      | some k, some p => if !asciiOnly p then none else match etags[k]? with
        | some (some (_, h)) => some (mkHeader p h)
        | _ => some []
      | _, _ => none
    | _ => none
  | 'w' :: ph => match Hex.decode (String.ofList ph) with
    | some p => if asciiOnly p && !p.isEmpty && !p.any isSpace then some (mkHeader p wrongHash) else none
    | none => none
  | 'r' :: h => match Hex.decode (String.ofList h) with
    | some b =>
      if !asciiOnly b || b.isEmpty then none
      else if b.length ≥ 2 ∧ b.head? = some quote ∧ b.getLast? = some quote ∧
          (fieldsGo ((b.drop 1).dropLast) []).length = 2 then none
      else some b
    | none => none
  | _ => none

/-- flags: `f` = Cache-Control: must-revalidate, plus at most one Content-Type letter:
    (default) application/json, `n` none, `u` "application/json; charset=utf-8",
    `x` application/jsonx, `c` text/plain, `m` "json", `i` "text/plain; charset" (unparsable),
    `w` application/c12wrap (the registered adapter) -/
def ctOfChar : Char → Option CT
  | 'n' => some .none | 'u' => some .jsonParams | 'x' => some .jsonx | 'c' => some .plain
  | 'm' => some .noSlash | 'i' => some .invalid | 'w' => some .adapter
  | _ => none

def parseFlags (s : String) : Option (Bool × CT) :=
  if s == "-" then some (false, .json)
  else
    -- optional `f` (Cache-Control: must-revalidate) or `F` ("no-cache, must-revalidate": not the exact value
    -- the handlers compare with, so not forced), then at most one Content-Type letter
    match s.toList with
    | ['f'] => some (true, .json)
    | ['F'] => some (false, .json)
    | ['f', c] => (ctOfChar c).map fun ct => (true, ct)
    | ['F', c] => (ctOfChar c).map fun ct => (false, ct)
    | [c] => (ctOfChar c).map fun ct => (false, ct)
    | _ => none

def pathOK (p : Bytes) : Bool :=
  asciiOnly p && (cfgPrefix.isPrefixOf p || idPrefix.isPrefixOf p || p == loadPath || p == adaptPath) &&
    !(splitSlash p).any forbiddenName

/-! #### the wire op: domain shared with the harness -/

def wireByteOK (c : UInt8) : Bool := (0x21 ≤ c && c ≤ 0x7f) || (1 ≤ c && c ≤ 8)

def hasDup : List Bytes → Bool
  | [] => false
  | x :: r => r.contains x || hasDup r

def wireDomain (m : HMethod) (decoded : Bytes) (body : Body) : Bool :=
  decoded.all (fun c => 0x20 ≤ c && c ≤ 0x7e) &&
  ((str "/config").isPrefixOf decoded || (str "/id").isPrefixOf decoded || loadPath.isPrefixOf decoded ||
    adaptPath.isPrefixOf decoded) &&
  (splitSlash decoded).all (fun seg => (seg == dotdot && m == .get && cfgPrefix.isPrefixOf decoded) || !forbiddenName seg) &&
  !(decoded == adaptPath && m == .post && body == .empty)

def showWire (isGet : Bool) : WireResp → String
  | .badRequest => "B400"
  | .served r => showResp isGet r

/-! #### the ovl op -/

def parseOvlStep (st : String) : Option Req :=
  match st.splitOn "," with
  | [m, p, b] =>
    match parseMethod m, Hex.decode p, parseBody b with
    | some hm, some path, some body =>
      if hm == .get || hm == .other || !pathOK path || !cfgPrefix.isPrefixOf path then none
      else some ⟨hm, path, body, [], false, .json⟩
    | _, _, _ => none
  | _ => none

/-- answers of A, B, the GET, and the final document, for the serial order A;B;R (`true`) or A;R;B -/
def ovlOrder (s0 : State) (a b g : Req) (bFirst : Bool) : String :=
  let x := serve drvEnv a s0
  let y := serve drvEnv b x.1
  let rg := if bFirst then (serve drvEnv g y.1).2 else (serve drvEnv g x.1).2
  showResp false x.2 ++ ";" ++ showResp false y.2 ++ ";" ++ showResp true rg ++ ";" ++ encTree (cfgOf y.1.rawCfg)

def stepDrv (d : Drv) (step : String) : Option Drv :=
  match step.splitOn "," with
  | [m, p, b, im, fl] =>
    match parseMethod m, Hex.decode p, parseBody b, parseIfMatch d.etags im, parseFlags fl with
    | some hm, some path, some body, some ifm, some (force, ct) =>
      if !pathOK path then none
      -- POST /adapt with an empty body is not a function of the request (pooled buffer: nil vs empty
      -- json.RawMessage); outside the domain on both sides
      else if path == adaptPath && hm == .post && body == .empty then none else
      let req : Req := ⟨hm, path, body, ifm, force, ct⟩
      let (s', resp) := serve drvEnv req d.s
      let isGet := hm == .get
      let et := match resp with
        | .okGet out ep => some (ep, hashText out)
        | _ => none
      let loaded := s'.loads > d.s.loads
      let pl := if loaded && (probeOf s'.running).isSome then d.probeLoads + 1 else d.probeLoads
      let ps := if loaded && (probeOf s'.running).isSome then probeOf s'.running else d.probeSaw
      -- unsyncedDecodeAndRun: `if allowPersist && newCfg != nil && persist not disabled` write cfgJSON
      let sv := if loaded && cfgOf s'.rawCfg != .null then some (cfgOf s'.rawCfg) else d.saved
      -- adapter warnings: /adapt carries them in its answer; /load writes them once caddy.Load has
      -- succeeded (Warn.lean) — a rejected load answers its error status whatever the adapter warned about
      let rs :=
        if path == adaptPath && adapterWarned drvEnv drvWarns req then
          (match resp with
            | .okAdapt j => "dw:" ++ encTree j
            | r => showResp isGet r)
        else if path == loadPath && warnsWritten drvEnv drvWarns req d.s then "ww"
        else showResp isGet resp
      let line :=
        if hm == .get || hm == .other then showResp isGet resp
        else rs ++ "/" ++ encTree (cfgOf s'.rawCfg) ++ "/" ++ showIds s' ++ "/" ++
          toString pl ++ "/" ++ (match ps with | some j => encTree j | none => "-") ++ "/" ++ toString s'.loads ++ "/" ++ (match sv with | some j => encTree j | none => "-")
      some { s := s', etags := d.etags ++ [et], probeLoads := pl, probeSaw := ps, saved := sv, out := line :: d.out }
    | _, _, _, _, _ => none
  | _ => none

def runHist (steps : List String) : Option String :=
  match steps.foldlM stepDrv ({} : Drv) with
  | some d => some (";".intercalate d.out.reverse)
  | none => none

def handle : List String → String
  | ["hist", steps] =>
    match runHist (steps.splitOn ";") with
    | some s => s
    | none => "bad-op"
  -- byte-level models of the standard-library functions the model relies on, against the real ones
  | ["clean", p] =>
    match Hex.decode p with
    | some b => if b.head? == some slash then "ok " ++ Hex.encode (cleanRooted b) else "bad-op"
    | none => "bad-op"
  | ["join", a, b] =>
    match Hex.decode a, Hex.decode b with
    | some x, some y => if x.head? == some slash then "ok " ++ Hex.encode (pathJoin x y) else "bad-op"
    | _, _ => "bad-op"
  | ["fields", p] =>
    match Hex.decode p with
    | some b => if asciiOnly b then "ok " ++ ",".intercalate ((fieldsGo b []).map Hex.encode) else "bad-op"
    | none => "bad-op"
  | ["atoi", p] =>
    match Hex.decode p with
    | some b => match atoi b with
      | some i => "ok " ++ toString i
      | none => "err"
    | none => "bad-op"
  | ["itoa", n] =>
    match n.toNat? with
    | some k => "ok " ++ Hex.encode (natDigits k)
    | none => "bad-op"
  | ["route", p] =>
    match Hex.decode p with
    | some b =>
      if !asciiOnly b || b.isEmpty then "bad-op" else
      (match route b with
        | .config => "config" | .id => "id" | .load => "load" | .adapt => "adapt"
        | .redirect => "redirect" | .none => "none")
    | none => "bad-op"
  | ["pull", sub, pulled] =>
    -- a config naming a config loader (admin.config.load, no load_delay) is loaded; once it runs, caddy pulls
    -- <pulled> from the loader and applies it: changeConfig(POST, "/config", pulled, "", false)
    match parseWholeTree sub, (if pulled == "-" then none else parseBody pulled) with
    | some t, some pb =>
      let adminSec : Json := .obj [(str "config", .obj [(str "load", .obj [(str "module", .str (str "c12pull"))])])]
      let init : Json := .obj [(str "admin", adminSec), (str "apps", .obj [(str "c12", t)])]
      -- the loader's world: the admin section above is a valid top-level field
      let acc : Json → Bool := fun d => match d with
        | .obj kvs => (lookup (str "admin") kvs == none || lookup (str "admin") kvs == some adminSec) &&
                      probeAccepts (.obj (kvs.filter (fun e => e.1 != str "admin")))
        | d => probeAccepts d
      let env : Env := ⟨hashText, acc, wrapAdapter⟩
      let (s1, r1) := serve env ⟨.post, cfgPrefix, .val init, [], false, .json⟩ initState
      let s2 := if s1.loads == 1 then (pulledConfig env pb s1).1 else s1
      let sv := if s2.loads == 2 && cfgOf s2.rawCfg != .null then some (cfgOf s2.rawCfg)
                else if s1.loads == 1 then some init else none
      -- then one write through /id/: PATCH the first id of the document in place with {"w":1}
      let ids := ((idTexts (cfgOf s2.rawCfg)).foldl (fun acc b => insertUniq b acc) []).filter
        fun t => !t.isEmpty && !t.contains slash && t != dot && t != dotdot
      let follow := match ids with
        | [] => "noid"
        | t :: _ =>
          let (s3, r3) := serve env ⟨.patch, idPrefix ++ t, .val (.obj [(str "w", .num (str "1"))]), [], false, .json⟩ s2
          match r3 with
          | .ambiguous => "amb"
          | r3 => showResp false r3 ++ "/" ++ encTree (cfgOf s3.rawCfg)
      (match r1 with | .okWrite => "200" | .fail f => toString (statusOf f) | _ => "?") ++ "/" ++
        encTree (cfgOf s2.rawCfg) ++ "/" ++ toString s2.loads ++ "/" ++ (match sv with | some j => encTree j | none => "-") ++
        "/" ++ follow
    | _, _ => "bad-op"
  | ["cli", init, file, flags] =>
    -- `caddy reload --config <file>.json [--force] [--adapter …] [--address …]` against the running instance
    -- (after loading <init>); flags: f = --force, a = --address given explicitly, w / x = --adapter c12wrap / nosuch
    match parseWholeTree init, parseBody file with
    | some j, some fb =>
      if flags != "-" && !(flags.toList.all (fun c => c == 'f' || c == 'a' || c == 'w' || c == 'x')) then "bad-op"
      else if flags.contains 'w' && flags.contains 'x' then "bad-op" else
      let s0 := (serve drvEnv ⟨.post, cfgPrefix, .val .null, [], false, .json⟩ initState).1
      let s1 := (serve drvEnv ⟨.post, cfgPrefix, .val j, [], false, .json⟩ s0).1
      let ad : CliAdapter := if flags.contains 'w' then .registered else if flags.contains 'x' then .unknown else .none
      let (s2, res) := cliReload drvEnv fb ad (flags.contains 'f') (flags.contains 'a') s1
      (match res with
        | .ok => "ok"
        | .failedBeforeSend => "presend"
        | .refused f => "F" ++ toString (statusOf f) ++ ":" ++ showFail f) ++
      "/" ++ encTree (cfgOf s2.rawCfg) ++ "/" ++ toString (s2.loads - s1.loads)
    | _, _ => "bad-op"
  | "gg" :: doc :: paths =>
    -- overlapping GETs: the first is being written out while the others are served completely; each GET
    -- answers the value at its own path, whatever overlaps (`get_answer_is_independent_of_other_reads`)
    match parseWholeTree doc, paths.mapM Hex.decode with
    | some j, some ps =>
      if ps.length < 2 || ps.length > 4 || !ps.all pathOK then "bad-op" else
      let s := (serve drvEnv ⟨.post, cfgPrefix, .val j, [], false, .json⟩ initState).1
      "|".intercalate (ps.map fun p => showResp true (serve drvEnv (getReq p) s).2)
    | _, _ => "bad-op"
  | ["ovl", doc, a, b, p] =>
    -- writer A held inside changeConfig (write lock) while writer B and a GET wait: by the lock model
    -- (Regions.lean) the outcome is that of A;B;R or of A;R;B — both are the answer
    match parseWholeTree doc, parseOvlStep a, parseOvlStep b, Hex.decode p with
    | some j, some ra, some rb, some gp =>
      if !pathOK gp || !cfgPrefix.isPrefixOf gp then "bad-op" else
      let s0 := (serve drvEnv ⟨.post, cfgPrefix, .val j, [], false, .json⟩ initState).1
      ovlOrder s0 ra rb (getReq gp) true ++ "|" ++ ovlOrder s0 ra rb (getReq gp) false
    | _, _, _, _ => "bad-op"
  | ["wire", doc, m, t, b] =>
    -- one request written byte by byte onto a connection of a real http.Server in front of the handler,
    -- after loading <doc>: net/http parses the target, the mux routes on the escaped path, the handlers
    -- address the decoded one (Wire.lean)
    match parseWholeTree doc, parseMethod m, Hex.decode t, parseBody b with
    | some j, some hm, some tg, some body =>
      if hm == .other || hasDup (idTexts j) || tg.head? != some slash || !tg.all wireByteOK then "bad-op"
      else if (match parseTarget tg with | some (p, _) => !wireDomain hm p body | none => false) then "bad-op" else
      let s1 := (serve drvEnv ⟨.post, cfgPrefix, .val j, [], false, .json⟩ initState).1
      let x := wireServe drvEnv ⟨hm, [], body, [], false, .json⟩ tg s1
      showWire (hm == .get) x.2 ++ "/" ++ encTree (cfgOf x.1.rawCfg) ++ "/" ++ showIds x.1
    | _, _, _, _ => "bad-op"
  | ["idrace", n] =>
    -- samples the two lock regions of /id/ requests on the real handler (Regions.lean); the race is
    -- not a function of the input, the answer is constant
    match n.toNat? with
    | some k => if 1 ≤ k ∧ k ≤ 2000 then "idrace" else "bad-op"
    | none => "bad-op"
  | ["peek", k, n] =>
    -- concurrent readers while rejected writes are processed (one critical section each, Regions.lean):
    -- nothing to compute, the oracle asserts that no reader sees a trace of them
    match k.toNat?, n.toNat? with
    | some k, some n => if 1 ≤ k ∧ k ≤ 32 ∧ 1 ≤ n ∧ n ≤ 2000 then "peek" else "bad-op"
    | _, _ => "bad-op"
  | ["cas", k, n] =>
    match k.toNat?, n.toNat? with
    | some k, some n => if 1 ≤ k ∧ k ≤ 64 ∧ 1 ≤ n ∧ n ≤ 1000 then "cas " ++ toString (k * n) else "bad-op"
    | _, _ => "bad-op"
  | _ => "bad-op"

/-- counter-example lines replayed on the implementation on every run (see Witness.lean) -/
def witnessLines : List String := [
  "C12 hist P,2f636f6e6669672f,{61707073.{633132.{61.{62.#7#}612f62.{406964.s73.76.#1#}}}},-,-;G,2f69642f73,-,-,-"
]

end CaddyModel.C12
