/-
C12 — what sits between the bytes of the request line and the handlers: net/http's request
parsing and the ServeMux as they treat %-encoded request targets.

  net/http.readRequest      → url.ParseRequestURI(target)      (`parseTarget`)
      url.parse(viaRequest) : control bytes refused; query cut at the first '?'; no fragment
      URL.setPath           : Path = unescape(p); RawPath = "" iff p = escape(Path)
  ServeMux.findHandler      works on URL.EscapedPath()          (`escapedPath`, `wireRoute`)
      cleanPath on the ESCAPED path (so %2e%2e and %2F survive), literal pattern segments are
      compared with the UNESCAPED first segment (routing_tree.go firstSegment → pathUnescape)
  handleConfig / handleConfigID read r.URL.Path, the DECODED path (`wireServe`)

So the document path a request addresses is the decoded path, while the route is decided on the
escaped one.
-/
import CaddyModel.C12.Model

namespace CaddyModel.C12

def pct : UInt8 := 37

/-- net/url `ishex` + `unhex` -/
def hexVal (c : UInt8) : Option UInt8 :=
  if 48 ≤ c && c ≤ 57 then some (c - 48)
  else if 97 ≤ c && c ≤ 102 then some (c - 97 + 10)
  else if 65 ≤ c && c ≤ 70 then some (c - 65 + 10)
  else none

/-- net/url `unescape(s, encodePath)`: every `%` must be followed by two hex digits -/
def unescapePath : Bytes → Option Bytes
  | [] => some []
  | [c] => if c = pct then none else some [c]
  | [c, d] =>
    if c = pct then none
    else match unescapePath [d] with
      | some t => some (c :: t)
      | none => none
  | c :: a :: b :: r =>
    if c = pct then
      match hexVal a, hexVal b, unescapePath r with
      | some x, some y, some t => some ((x * 16 + y) :: t)
      | _, _, _ => none
    else
      match unescapePath (a :: b :: r) with
      | some t => some (c :: t)
      | none => none

def isAlnum (c : UInt8) : Bool := (48 ≤ c && c ≤ 57) || (65 ≤ c && c ≤ 90) || (97 ≤ c && c ≤ 122)

/-- net/url `shouldEscape(c, encodePath)` -/
def shouldEscape (c : UInt8) : Bool :=
  if isAlnum c then false
  else if c = 45 || c = 95 || c = 46 || c = 126 then false            -- - _ . ~
  else if c = 36 || c = 38 || c = 43 || c = 44 || c = 47 || c = 58 || c = 59 || c = 61 || c = 64 then false  -- $ & + , / : ; = @
  else true                                                           -- '?' included

def upperHex (n : UInt8) : UInt8 := if n < 10 then 48 + n else 55 + n

/-- net/url `escape(s, encodePath)` -/
def escapePath : Bytes → Bytes
  | [] => []
  | c :: r => if shouldEscape c then pct :: upperHex (c / 16) :: upperHex (c % 16) :: escapePath r else c :: escapePath r

/-- net/url `validEncoded(s, encodePath)` -/
def validEncodedByte (c : UInt8) : Bool :=
  c = 33 || c = 36 || c = 38 || c = 39 || c = 40 || c = 41 || c = 42 || c = 43 || c = 44 || c = 59 || c = 61 || c = 58 || c = 64 ||
  c = 91 || c = 93 || c = pct || !shouldEscape c

def validEncoded (s : Bytes) : Bool := s.all validEncodedByte

/-- `stringContainsCTLByte` -/
def hasCTL (s : Bytes) : Bool := s.any fun c => c < 32 || c = 127

/-- `URL.EscapedPath()` after `setPath(p)` with decoded path `path` -/
def escapedPath (p path : Bytes) : Bytes :=
  if p = escapePath path ∨ validEncoded p then p else escapePath path

/-- `url.ParseRequestURI` of an origin-form request target (starts with '/'): the decoded
    `URL.Path` and `URL.EscapedPath()`; `none` = the server answers 400 before any handler runs -/
def parseTarget (t : Bytes) : Option (Bytes × Bytes) :=
  if hasCTL t then none
  else
    match unescapePath (t.takeWhile (· ≠ 63)) with
    | some path => some (path, escapedPath (t.takeWhile (· ≠ 63)) path)
    | none => none

/-- `pathUnescape` of routing_tree.go: the segment itself if it does not unescape -/
def segUnescape (seg : Bytes) : Bytes :=
  match unescapePath seg with
  | some s => s
  | none => seg

/-- the ServeMux on the escaped path: "/config/", "/id/", "/load", "/adapt" -/
def wireRoute (ep : Bytes) : Route :=
  if ep.head? ≠ some slash then .none
  else if muxClean ep ≠ ep then .redirect
  else
    match splitSlash ep with
    | _ :: seg :: rest =>
      if rest = [] then
        (if segUnescape seg = cfgKey ∨ segUnescape seg = idSeg then .redirect
         else if slash :: segUnescape seg = loadPath then .load
         else if slash :: segUnescape seg = adaptPath then .adapt
         else .none)
      else if segUnescape seg = cfgKey then .config
      else if segUnescape seg = idSeg then .id
      else .none
    | _ => .none

inductive WireResp where
  /-- net/http answered "400 Bad Request" itself: the target does not parse -/
  | badRequest
  | served (r : Resp)
deriving DecidableEq, Repr

/-- one request as it arrives on a connection: `r.path` is ignored, the request target `t`
    (bytes of the request line) decides the route (escaped) and the document path (decoded) -/
def wireServe (env : Env) (r : Req) (t : Bytes) (s : State) : State × WireResp :=
  match parseTarget t with
  | none => (s, .badRequest)
  | some (path, ep) =>
    match wireRoute ep with
    | .none => (s, .served (.fail .notFound))
    | .redirect => (s, .served .redirect)
    | .config => ((handleConfig env r path s).1, .served (handleConfig env r path s).2)
    | .load => ((handleLoad env r s).1, .served (handleLoad env r s).2)
    | .adapt => ((handleAdapt env r s).1, .served (handleAdapt env r s).2)
    | .id =>
      match handleConfigID s.index path with
      | .fail f => (s, .served (.fail f))
      | .ambiguous => (s, .served .ambiguous)
      | .to p =>
        -- the internal redirect: URL.Path = p, the stale RawPath no longer decodes to it, so the mux
        -- sees escape(p) — which is clean, and routes, exactly when p does
        match route p with
        | .config => ((handleConfig env r p s).1, .served (handleConfig env r p s).2)
        | .redirect => (s, .served .redirect)
        | _ => (s, .served (.fail .notFound))

end CaddyModel.C12
