/-
C12 — what each method leaves at the addressed path (inductions over `Step`).
-/
import CaddyModel.C12.StepLemmas

namespace CaddyModel.C12

/-! ### reading through one container -/

theorem dropLast_cons2 {α} (a b : α) (l : List α) : (a :: b :: l).dropLast = a :: (b :: l).dropLast := by
  simp [List.dropLast]

theorem sget_in_obj {part : Bytes} {kvs : Obj} {c : Json} (h : lookup part kvs = some c) (rest : List Bytes) :
    sget (part :: rest) (.obj kvs) = sget rest c := by
  rw [sget_obj_cons, h]

theorem sget_in_replaced {part : Bytes} {kvs : Obj} (h : (lookup part kvs).isSome) (c' : Json) (rest : List Bytes) :
    sget (part :: rest) (.obj (replaceKey part c' kvs)) = sget rest c' := by
  rw [sget_obj_cons, lookup_replaceKey_same h]

theorem sget_in_set (part : Bytes) (kvs : Obj) (c' : Json) (rest : List Bytes) :
    sget (part :: rest) (.obj (setKey part c' kvs)) = sget rest c' := by
  rw [sget_obj_cons, lookup_setKey_same]

theorem sget_in_arr {part : Bytes} {xs : List Json} {i : Int} {c : Json} (ha : atoi part = some i) (h0 : 0 ≤ i)
    (hx : xs[i.toNat]? = some c) (rest : List Bytes) : sget (part :: rest) (.arr xs) = sget rest c := by
  rw [sget_arr_cons, ha]; simp [h0, hx]

theorem sget_in_arr_set {part : Bytes} {xs : List Json} {i : Int} (ha : atoi part = some i) (h0 : 0 ≤ i)
    (hlt : i < xs.length) (c' : Json) (rest : List Bytes) : sget (part :: rest) (.arr (xs.set i.toNat c')) = sget rest c' := by
  have : i.toNat < xs.length := by omega
  rw [sget_arr_cons, ha]; simp [h0, List.getElem?_set_self this]

theorem sget_single_obj (part : Bytes) (kvs : Obj) : sget [part] (.obj kvs) = lookup part kvs := by
  rw [sget_obj_cons]; cases lookup part kvs <;> simp [sget]

/-! ### the two places where something happens -/

theorem arrayOp_put_ok {ell : Bool} {val : Json} {idxStr : Bytes} {arr arr' : List Json} {o : Option Json}
    (h : arrayOp .put ell val idxStr arr = (arr', .ok o)) :
    ∃ i : Int, atoi idxStr = some i ∧ 0 ≤ i ∧ i ≤ arr.length ∧ arr' = arr.insertIdx i.toNat val := by
  simp only [arrayOp] at h
  (repeat' split at h) <;> simp_all

theorem arrayOp_patch_ok' {ell : Bool} {val : Json} {idxStr : Bytes} {arr arr' : List Json} {o : Option Json}
    (h : arrayOp .patch ell val idxStr arr = (arr', .ok o)) :
    ∃ i : Int, atoi idxStr = some i ∧ 0 ≤ i ∧ i < arr.length ∧ arr' = arr.set i.toNat val := by
  simp only [arrayOp] at h
  (repeat' split at h) <;> simp_all

theorem arrayOp_delete_ok {ell : Bool} {val : Json} {idxStr : Bytes} {arr arr' : List Json} {o : Option Json}
    (h : arrayOp .delete ell val idxStr arr = (arr', .ok o)) :
    ∃ i : Int, atoi idxStr = some i ∧ 0 ≤ i ∧ i < arr.length ∧ arr' = arr.eraseIdx i.toNat := by
  simp only [arrayOp] at h
  (repeat' split at h) <;> simp_all

/-- the elements a POST appends: the body, or (with a trailing `...`) the elements of the body -/
def appended (ell : Bool) (val : Json) : Option (List Json) :=
  if ell then (match val with | .arr vs => some vs | _ => none) else some [val]

theorem arrayOp_post_ok {ell : Bool} {val : Json} {idxStr : Bytes} {arr arr' : List Json} {o : Option Json}
    (h : arrayOp .post ell val idxStr arr = (arr', .ok o)) :
    ∃ app, appended ell val = some app ∧ arr' = arr ++ app := by
  simp only [arrayOp, appended] at h ⊢
  (repeat' split at h) <;> simp_all

/-! ### PUT and PATCH: afterwards the path names the body -/

theorem step_put_effect {ell : Bool} {val : Json} {parts : List Bytes} {node node' : Json} {o : Option Json}
    (h : Step .put ell val parts node node' o) : sget parts node' = some val := by
  induction h with
  | @special part idxStr kvs arr arr' o hl hop =>
    obtain ⟨i, ha, h0, h1, rfl⟩ := arrayOp_put_ok hop
    rw [sget_in_replaced (by simp [hl]), sget_arr_cons, ha]
    have : i.toNat ≤ arr.length := by omega
    simp [h0, List.getElem?_insertIdx_self, this, sget]
  | @last part kvs n' o hop =>
    simp only [lastOp] at hop
    split at hop
    · simp at hop
    · simp at hop; obtain ⟨rfl, _⟩ := hop
      rw [sget_single_obj, lookup_setKey_same]
  | @specialArr part idxStr xs i arr arr' o ha h0 hlt hx hop =>
    obtain ⟨j, hj, hj0, hj1, rfl⟩ := arrayOp_put_ok hop
    rw [sget_in_arr_set ha h0 hlt, sget_arr_cons, hj]
    have : j.toNat ≤ arr.length := by omega
    simp [hj0, List.getElem?_insertIdx_self, this, sget]
  | create _ _ _ ih => rw [sget_in_set]; exact ih
  | inObj hl _ _ _ ih => rw [sget_in_replaced (by simp [hl])]; exact ih
  | inArr ha h0 h1 _ _ ih => rw [sget_in_arr_set ha h0 h1]; exact ih

theorem step_patch_effect {ell : Bool} {val : Json} {parts : List Bytes} {node node' : Json} {o : Option Json}
    (h : Step .patch ell val parts node node' o) : sget parts node' = some val := by
  induction h with
  | @special part idxStr kvs arr arr' o hl hop =>
    obtain ⟨i, ha, h0, h1, rfl⟩ := arrayOp_patch_ok' hop
    rw [sget_in_replaced (by simp [hl]), sget_arr_cons, ha]
    have : i.toNat < arr.length := by omega
    simp [h0, List.getElem?_set_self this, sget]
  | @last part kvs n' o hop =>
    simp only [lastOp] at hop
    split at hop
    · simp at hop; obtain ⟨rfl, _⟩ := hop
      rw [sget_single_obj, lookup_setKey_same]
    · simp at hop
  | @specialArr part idxStr xs i arr arr' o ha h0 hlt hx hop =>
    obtain ⟨j, hj, hj0, hj1, rfl⟩ := arrayOp_patch_ok' hop
    rw [sget_in_arr_set ha h0 hlt, sget_arr_cons, hj]
    have : j.toNat < arr.length := by omega
    simp [hj0, List.getElem?_set_self this, sget]
  | create _ hm _ _ => cases hm
  | inObj hl _ _ _ ih => rw [sget_in_replaced (by simp [hl])]; exact ih
  | inArr ha h0 h1 _ _ ih => rw [sget_in_arr_set ha h0 h1]; exact ih

/-! ### DELETE -/

/-- what DELETE leaves: an array one element shorter, or an object without the key -/
def DeleteEffect (parts : List Bytes) (node node' : Json) : Prop :=
  (∃ arr last i, sget parts.dropLast node = some (.arr arr) ∧ parts.getLast? = some last ∧ atoi last = some i ∧
      0 ≤ i ∧ i < arr.length ∧ sget parts.dropLast node' = some (.arr (arr.eraseIdx i.toNat))) ∨
  ((sget parts node).isSome ∧ sget parts node' = none)

theorem step_delete_effect {ell : Bool} {val : Json} {parts : List Bytes} {node node' : Json} {o : Option Json}
    (h : Step .delete ell val parts node node' o) : DeleteEffect parts node node' := by
  induction h with
  | @special part idxStr kvs arr arr' o hl hop =>
    obtain ⟨i, ha, h0, h1, rfl⟩ := arrayOp_delete_ok hop
    refine Or.inl ⟨arr, idxStr, i, ?_, by simp, ha, h0, h1, ?_⟩
    · simp [List.dropLast, sget_single_obj, hl]
    · simp [List.dropLast, sget_single_obj, lookup_replaceKey_same, hl]
  | @last part kvs n' o hop =>
    simp only [lastOp] at hop
    split at hop
    · next hc =>
      simp at hop; obtain ⟨rfl, _⟩ := hop
      refine Or.inr ⟨by rw [sget_single_obj]; exact hc, ?_⟩
      rw [sget_single_obj, lookup_eraseKey_same]
    · simp at hop
  | @specialArr part idxStr xs i arr arr' o ha h0 hlt hx hop =>
    obtain ⟨j, hj, hj0, hj1, rfl⟩ := arrayOp_delete_ok hop
    refine Or.inl ⟨arr, idxStr, j, ?_, by simp, hj, hj0, hj1, ?_⟩
    · simp only [List.dropLast]; rw [sget_in_arr ha h0 hx]; simp [sget]
    · simp only [List.dropLast]; rw [sget_in_arr_set ha h0 hlt]; simp [sget]
  | create _ hm _ _ => cases hm
  | @inObj part a b kvs c c' o hl _ _ _ ih =>
    have hs : (lookup part kvs).isSome := by simp [hl]
    rcases ih with ⟨arr, last, i, h1, h2, h3, h4, h5, h6⟩ | ⟨h1, h2⟩
    · refine Or.inl ⟨arr, last, i, ?_, by simpa using h2, h3, h4, h5, ?_⟩
      · rw [dropLast_cons2, sget_in_obj hl]; exact h1
      · rw [dropLast_cons2, sget_in_replaced hs]; exact h6
    · exact Or.inr ⟨by rw [sget_in_obj hl]; exact h1, by rw [sget_in_replaced hs]; exact h2⟩
  | @inArr part r0 r' xs i c c' o ha h0 hlt hx _ ih =>
    rcases ih with ⟨arr, last, j, h1, h2, h3, h4, h5, h6⟩ | ⟨h1, h2⟩
    · refine Or.inl ⟨arr, last, j, ?_, by simpa using h2, h3, h4, h5, ?_⟩
      · rw [dropLast_cons2, sget_in_arr ha h0 hx]; exact h1
      · rw [dropLast_cons2, sget_in_arr_set ha h0 hlt]; exact h6
    · exact Or.inr ⟨by rw [sget_in_arr ha h0 hx]; exact h1, by rw [sget_in_arr_set ha h0 hlt]; exact h2⟩

/-! ### POST -/

/-- what POST leaves: the addressed array (named by the whole path, or by the path without
    its last part — POST ignores an index after an array) with the body appended, or the
    body itself where there was no array -/
def PostEffect (ell : Bool) (val : Json) (parts : List Bytes) (node node' : Json) : Prop :=
  (∃ arr app, appended ell val = some app ∧ sget parts.dropLast node = some (.arr arr) ∧
      sget parts.dropLast node' = some (.arr (arr ++ app))) ∨
  (∃ arr app, appended ell val = some app ∧ sget parts node = some (.arr arr) ∧
      sget parts node' = some (.arr (arr ++ app))) ∨
  ((∀ arr, sget parts node ≠ some (.arr arr)) ∧ sget parts node' = some val)

theorem step_post_effect {ell : Bool} {val : Json} {parts : List Bytes} {node node' : Json} {o : Option Json}
    (h : Step .post ell val parts node node' o) : PostEffect ell val parts node node' := by
  induction h with
  | @special part idxStr kvs arr arr' o hl hop =>
    obtain ⟨app, happ, rfl⟩ := arrayOp_post_ok hop
    refine Or.inl ⟨arr, app, happ, ?_, ?_⟩
    · simp [List.dropLast, sget_single_obj, hl]
    · simp [List.dropLast, sget_single_obj, lookup_replaceKey_same, hl]
  | @last part kvs n' o hop =>
    simp only [lastOp] at hop
    split at hop
    · next arr hl =>
      split at hop
      · split at hop
        · next vs =>
          simp at hop; obtain ⟨rfl, _⟩ := hop
          refine Or.inr (Or.inl ⟨arr, vs, by simp [appended, *], ?_, ?_⟩)
          · rw [sget_single_obj]; exact hl
          · rw [sget_single_obj, lookup_setKey_same]
        · simp at hop
      · next hell =>
        simp at hop; obtain ⟨rfl, _⟩ := hop
        refine Or.inr (Or.inl ⟨arr, [val], by simp [appended, hell], ?_, ?_⟩)
        · rw [sget_single_obj]; exact hl
        · rw [sget_single_obj, lookup_setKey_same]
    · next hna =>
      simp at hop; obtain ⟨rfl, _⟩ := hop
      refine Or.inr (Or.inr ⟨?_, ?_⟩)
      · intro arr; rw [sget_single_obj]; exact fun h => hna arr h
      · rw [sget_single_obj, lookup_setKey_same]
  | @specialArr part idxStr xs i arr arr' o ha h0 hlt hx hop =>
    obtain ⟨app, happ, rfl⟩ := arrayOp_post_ok hop
    refine Or.inl ⟨arr, app, happ, ?_, ?_⟩
    · simp only [List.dropLast]; rw [sget_in_arr ha h0 hx]; simp [sget]
    · simp only [List.dropLast]; rw [sget_in_arr_set ha h0 hlt]; simp [sget]
  | create _ hm _ _ => cases hm
  | @inObj part a b kvs c c' o hl _ _ _ ih =>
    have hs : (lookup part kvs).isSome := by simp [hl]
    rcases ih with ⟨arr, app, h1, h2, h3⟩ | ⟨arr, app, h1, h2, h3⟩ | ⟨h1, h2⟩
    · exact Or.inl ⟨arr, app, h1, by rw [dropLast_cons2, sget_in_obj hl]; exact h2,
        by rw [dropLast_cons2, sget_in_replaced hs]; exact h3⟩
    · exact Or.inr (Or.inl ⟨arr, app, h1, by rw [sget_in_obj hl]; exact h2, by rw [sget_in_replaced hs]; exact h3⟩)
    · exact Or.inr (Or.inr ⟨by intro arr; rw [sget_in_obj hl]; exact h1 arr, by rw [sget_in_replaced hs]; exact h2⟩)
  | @inArr part r0 r' xs i c c' o ha h0 hlt hx _ ih =>
    rcases ih with ⟨arr, app, h1, h2, h3⟩ | ⟨arr, app, h1, h2, h3⟩ | ⟨h1, h2⟩
    · exact Or.inl ⟨arr, app, h1, by rw [dropLast_cons2, sget_in_arr ha h0 hx]; exact h2,
        by rw [dropLast_cons2, sget_in_arr_set ha h0 hlt]; exact h3⟩
    · exact Or.inr (Or.inl ⟨arr, app, h1, by rw [sget_in_arr ha h0 hx]; exact h2,
        by rw [sget_in_arr_set ha h0 hlt]; exact h3⟩)
    · exact Or.inr (Or.inr ⟨by intro arr; rw [sget_in_arr ha h0 hx]; exact h1 arr,
        by rw [sget_in_arr_set ha h0 hlt]; exact h2⟩)

/-! ### GET -/

theorem step_get_sound {ell : Bool} {val : Json} {parts : List Bytes} {node node' : Json} {o : Option Json}
    (h : Step .get ell val parts node node' o) :
    ∃ v, o = some v ∧ (sget parts node = some v ∨ (v = .null ∧ sget parts node = none)) := by
  induction h with
  | @special part idxStr kvs arr arr' o hl hop =>
    have h2 : (arrayOp .get ell val idxStr arr).2 = .ok o := by rw [hop]
    cases o with
    | none => simp only [arrayOp] at h2; (repeat' split at h2) <;> simp_all
    | some x =>
      obtain ⟨i, ha, h0, h1, hx⟩ := arrayOp_get_ok h2
      refine ⟨x, rfl, Or.inl ?_⟩
      rw [sget_in_obj hl, sget_in_arr ha h0 hx]; simp [sget]
  | @last part kvs n' o hop =>
    simp [lastOp] at hop
    obtain ⟨_, rfl⟩ := hop
    refine ⟨_, rfl, ?_⟩
    rw [sget_single_obj]
    cases lookup part kvs <;> simp [encodeOf]
  | @specialArr part idxStr xs i arr arr' o ha h0 hlt hx hop =>
    have h2 : (arrayOp .get ell val idxStr arr).2 = .ok o := by rw [hop]
    cases o with
    | none => simp only [arrayOp] at h2; (repeat' split at h2) <;> simp_all
    | some x =>
      obtain ⟨j, hj, hj0, hj1, hjx⟩ := arrayOp_get_ok h2
      refine ⟨x, rfl, Or.inl ?_⟩
      rw [sget_in_arr ha h0 hx, sget_in_arr hj hj0 hjx]; simp [sget]
  | create _ hm _ _ => cases hm
  | inObj hl _ _ _ ih =>
    obtain ⟨v, h1, h2⟩ := ih
    exact ⟨v, h1, by rw [sget_in_obj hl]; exact h2⟩
  | inArr ha h0 _ hx _ ih =>
    obtain ⟨v, h1, h2⟩ := ih
    exact ⟨v, h1, by rw [sget_in_arr ha h0 hx]; exact h2⟩

/-- completeness: a value the path names is what GET writes -/
theorem trav_get_complete (ell : Bool) (val : Json) : ∀ (parts : List Bytes) (node : Json) (v : Json),
    parts ≠ [] → sget parts node = some v → Guard parts node →
    (trav .get ell val parts node).2 = .ok (some v) := by
  intro parts
  induction parts with
  | nil => intro node v h; exact absurd rfl h
  | cons part rest ih =>
    intro node v _ hs hg
    cases node with
    | obj kvs =>
      rcases trav_obj_cases .get ell val part rest kvs with ⟨arr, idxStr, rfl, hl, heq⟩ | ⟨rfl, heq⟩ | ⟨a', b', rfl, hns, heq⟩
      · rw [heq]; simp only [inArrayDest]
        rw [sget_in_obj hl, sget_arr_cons] at hs
        cases ha : atoi idxStr with
        | none => simp [ha] at hs
        | some i =>
          simp only [ha] at hs
          by_cases h0 : 0 ≤ i
          · simp only [h0, if_true] at hs
            cases hx : arr[i.toNat]? with
            | none => simp [hx] at hs
            | some c =>
              simp [hx, sget] at hs; subst hs
              have hlt : i.toNat < arr.length := (List.getElem?_eq_some_iff.1 hx).1
              exact arrayOp_get_at ha h0 (by omega) hx
          · simp [h0] at hs
      · rw [heq]
        rw [sget_single_obj] at hs
        simp [lastOp, hs, encodeOf]
      · rw [heq, if_neg (by simp)]
        cases hl : lookup part kvs with
        | none => rw [sget_obj_cons, hl] at hs; cases hs
        | some c =>
          rw [sget_in_obj hl] at hs
          simp only [inObj]
          refine ih c v (by simp) hs ?_
          intro xs hx
          have := hns xs (hx ▸ hl)
          cases b' with
          | nil => exact absurd rfl this
          | cons _ _ => simp
    | arr xs =>
      rw [sget_arr_cons] at hs
      rcases trav_arr_cases .get ell val part rest xs with ⟨hn, heq⟩ | ⟨i, ha, hoob, heq⟩ | ⟨i, c, ha, h0, hlt, hx, ⟨arr, idxStr, rfl, rfl, heq⟩ | ⟨hns, heq⟩⟩
      · simp [hn] at hs
      · simp only [ha] at hs
        by_cases h0 : 0 ≤ i
        · have : xs[i.toNat]? = none := by simp; omega
          simp [h0, this] at hs
        · simp [h0] at hs
      · rw [heq]; simp only [inArrayElem]
        simp only [ha, h0, if_true, hx, sget_arr_cons] at hs
        cases hj : atoi idxStr with
        | none => simp [hj] at hs
        | some j =>
          simp only [hj] at hs
          by_cases hj0 : 0 ≤ j
          · simp only [hj0, if_true] at hs
            cases hjx : arr[j.toNat]? with
            | none => simp [hjx] at hs
            | some y =>
              simp [hjx, sget] at hs; subst hs
              have : j.toNat < arr.length := (List.getElem?_eq_some_iff.1 hjx).1
              exact arrayOp_get_at hj hj0 (by omega) hjx
          · simp [hj0] at hs
      · rw [heq]; simp only [inArr]
        simp only [ha, h0, if_true, hx] at hs
        have h2 := hg xs rfl
        cases rest with
        | nil => simp at h2
        | cons r0 r' =>
          refine ih c v (by simp) hs ?_
          intro ys hy
          cases r' with
          | nil => exact absurd rfl (hns ys r0 hy)
          | cons _ _ => simp
    | null => simp [sget] at hs
    | bool _ => simp [sget] at hs
    | num _ => simp [sget] at hs
    | str _ => simp [sget] at hs

end CaddyModel.C12
