/-
C12 — the JSON tree the admin API operates on (`map[string]any` / `[]any` / scalars as
`encoding/json` decodes them into `any`), with decidable equality.

Numbers are kept as their canonical text (what `json.Marshal` prints for the float64);
objects are association lists kept sorted by key (the order `json.Marshal` prints a Go map
in), so that structural equality of trees is equality of the encoded documents — which is
what `changeConfig` compares (`bytes.Equal(rawCfgJSON, newCfg)`).
-/
import CaddyModel.Util.Hex

namespace CaddyModel.C12

inductive Json where
  | null
  | bool (b : Bool)
  | num (text : Bytes)
  | str (s : Bytes)
  | arr (xs : List Json)
  | obj (kvs : List (Bytes × Json))
deriving Repr, Inhabited

mutual
def Json.beq : Json → Json → Bool
  | .null, .null => true
  | .bool a, .bool b => a == b
  | .num a, .num b => a == b
  | .str a, .str b => a == b
  | .arr a, .arr b => Json.beqL a b
  | .obj a, .obj b => Json.beqO a b
  | _, _ => false
def Json.beqL : List Json → List Json → Bool
  | [], [] => true
  | x :: xs, y :: ys => Json.beq x y && Json.beqL xs ys
  | _, _ => false
def Json.beqO : List (Bytes × Json) → List (Bytes × Json) → Bool
  | [], [] => true
  | (k, v) :: r, (k', v') :: r' => k == k' && Json.beq v v' && Json.beqO r r'
  | _, _ => false
end

mutual
theorem Json.beq_iff : ∀ a b : Json, Json.beq a b = true ↔ a = b
  | .null, b => by cases b <;> simp [Json.beq]
  | .bool x, b => by cases b <;> simp [Json.beq]
  | .num x, b => by cases b <;> simp [Json.beq]
  | .str x, b => by cases b <;> simp [Json.beq]
  | .arr xs, b => by cases b <;> simp [Json.beq, Json.beqL_iff xs]
  | .obj kvs, b => by cases b <;> simp [Json.beq, Json.beqO_iff kvs]
theorem Json.beqL_iff : ∀ l m : List Json, Json.beqL l m = true ↔ l = m
  | [], m => by cases m <;> simp [Json.beqL]
  | x :: xs, m => by
    cases m with
    | nil => simp [Json.beqL]
    | cons y ys => simp [Json.beqL, Json.beq_iff x, Json.beqL_iff xs]
theorem Json.beqO_iff : ∀ l m : List (Bytes × Json), Json.beqO l m = true ↔ l = m
  | [], m => by cases m <;> simp [Json.beqO]
  | (k, v) :: r, m => by
    cases m with
    | nil => simp [Json.beqO]
    | cons y ys =>
      obtain ⟨k', v'⟩ := y
      simp [Json.beqO, Json.beq_iff v, Json.beqO_iff r, and_assoc]
end

instance : DecidableEq Json := fun a b => decidable_of_iff _ (Json.beq_iff a b)

end CaddyModel.C12
