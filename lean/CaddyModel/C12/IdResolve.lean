/-
C12 — `/id/<id>` end to end: mux → handleConfigID → internal redirect → mux → handleConfig.
-/
import CaddyModel.C12.TaggedLemmas
import CaddyModel.C12.EffectLemmas

namespace CaddyModel.C12

theorem cleanRooted_render {segs : List Bytes} (hok : okSegs segs) (hne : segs ≠ []) :
    cleanRooted (renderPath segs) = renderPath segs := by
  unfold cleanRooted
  rw [splitSlash_render hok hne]
  have h0 : cleanStep [] ([] : Bytes) = [] := by simp [cleanStep]
  simp only [List.foldl_cons, h0]
  rw [foldl_cleanStep_ok [] hok]; simp

theorem cleanRooted_render_slash {segs : List Bytes} (hok : okSegs segs) (hne : segs ≠ []) :
    cleanRooted (renderPath segs ++ slash :: []) = renderPath segs := by
  unfold cleanRooted
  rw [splitSlash_append, splitSlash_render hok hne]
  have h0 : ∀ st, cleanStep st ([] : Bytes) = st := by intro st; simp [cleanStep]
  have : splitSlash [] = [[]] := by simp [splitSlash]
  rw [this, List.foldl_append]
  simp only [List.foldl_cons, h0, List.foldl_nil]
  rw [foldl_cleanStep_ok [] hok]; simp

theorem muxClean_render {segs : List Bytes} (hok : okSegs segs) (hne : segs ≠ []) :
    muxClean (renderPath segs) = renderPath segs := by
  obtain ⟨body, c, hc, hr⟩ := render_snoc hok hne
  unfold muxClean
  have : (renderPath segs).getLast? ≠ some slash := by
    rw [hr, List.getLast?_concat]; simp; exact hc
  simp [this, cleanRooted_render hok hne]

theorem okSeg_cfgKey : okSeg cfgKey := by unfold okSeg; decide
theorem okSeg_idSeg : okSeg idSeg := by unfold okSeg; decide

theorem route_render_config {s : Bytes} {rest : List Bytes} (hok : okSegs (cfgKey :: s :: rest)) :
    route (renderPath (cfgKey :: s :: rest)) = .config := by
  have hm := muxClean_render hok (by simp)
  have hr : renderPath (cfgKey :: s :: rest) = cfgPrefix ++ (s ++ (rest.flatMap fun p => slash :: p)) := by
    simp [renderPath, cfgPrefix]
  unfold route
  rw [hm]
  rw [hr]
  have h1 : (cfgPrefix ++ (s ++ (rest.flatMap fun p => slash :: p))).head? = some slash := by simp [cfgPrefix]
  have h2 : ¬ (cfgPrefix ++ (s ++ (rest.flatMap fun p => slash :: p)) = slash :: cfgKey ∨
      cfgPrefix ++ (s ++ (rest.flatMap fun p => slash :: p)) = slash :: idSeg) := by
    simp [cfgPrefix, cfgKey, idSeg]
  have h3 : cfgPrefix.isPrefixOf (cfgPrefix ++ (s ++ (rest.flatMap fun p => slash :: p))) = true := by
    rw [List.isPrefixOf_iff_prefix]; exact List.prefix_append _ _
  simp [h1, h2, h3]

theorem route_render_id {t : Bytes} (ht : okSeg t) : route (renderPath [idSeg, t]) = .id := by
  have hok : okSegs [idSeg, t] := by
    intro x hx; simp at hx; rcases hx with hx | hx <;> rw [hx]
    · exact okSeg_idSeg
    · exact ht
  have hm := muxClean_render hok (by simp)
  have hr : renderPath [idSeg, t] = idPrefix ++ t := by simp [renderPath, idPrefix]
  unfold route
  rw [hm, hr]
  have h1 : (idPrefix ++ t).head? = some slash := by simp [idPrefix]
  have h2 : ¬ (idPrefix ++ t = slash :: cfgKey ∨ idPrefix ++ t = slash :: idSeg) := by
    simp [idPrefix, cfgKey, idSeg]
  have h3 : cfgPrefix.isPrefixOf (idPrefix ++ t) = false := by
    simp [cfgPrefix, idPrefix, cfgKey, idSeg, List.isPrefixOf]
  have h4 : idPrefix.isPrefixOf (idPrefix ++ t) = true := by
    rw [List.isPrefixOf_iff_prefix]; exact List.prefix_append _ _
  simp [h1, h2, h3, h4]

theorem splitSlash_id {t : Bytes} (ht : okSeg t) : splitSlash (idPrefix ++ t) = [[], idSeg, t] := by
  have hok : okSegs [idSeg, t] := by
    intro x hx; simp at hx; rcases hx with hx | hx <;> rw [hx]
    · exact okSeg_idSeg
    · exact ht
  have hr : renderPath [idSeg, t] = idPrefix ++ t := by simp [renderPath, idPrefix]
  rw [← hr]; exact splitSlash_render hok (by simp)

/-- `handleConfigID` for an id with exactly one candidate whose stored path is clean -/
theorem handleConfigID_unique {idx : Index} {t : Bytes} {segs : List Bytes} (ht : okSeg t)
    (hc : candidates t idx = [renderPath segs]) (hok : okSegs segs) (hne : segs ≠ []) :
    handleConfigID idx (idPrefix ++ t) = .to (rootSlash (renderPath segs)) := by
  unfold handleConfigID
  rw [splitSlash_id ht]
  simp only
  have h1 : t ≠ [] := ht.1
  simp [h1, hc, joinSlash, cleanRooted_render_slash hok hne]

theorem rootSlash_root : rootSlash (renderPath [cfgKey]) = cfgPrefix := by decide

theorem rootSlash_below (s : Bytes) (rest : List Bytes) :
    rootSlash (renderPath (cfgKey :: s :: rest)) = renderPath (cfgKey :: s :: rest) := by
  unfold rootSlash
  have : renderPath (cfgKey :: s :: rest) ≠ slash :: cfgKey := by
    simp [renderPath, cfgKey]
  simp [this]

/-! ### /id/<id>/<rest> -/

theorem flatMap_joinSlash : ∀ {rest : List Bytes}, rest ≠ [] → (rest.flatMap fun p => slash :: p) = slash :: joinSlash rest
  | [], h => absurd rfl h
  | [p], _ => by simp [joinSlash]
  | p :: q :: r, _ => by
    have ih := flatMap_joinSlash (rest := q :: r) (by simp)
    simp only [List.flatMap_cons] at ih ⊢
    rw [ih]; simp [joinSlash]

theorem renderPath_append {a rest : List Bytes} (ha : a ≠ []) (hr : rest ≠ []) :
    renderPath (a ++ rest) = renderPath a ++ slash :: joinSlash rest := by
  have h1 : ∀ l : List Bytes, l ≠ [] → renderPath l = l.flatMap fun p => slash :: p := by
    intro l hl; cases l with
    | nil => exact absurd rfl hl
    | cons _ _ => simp [renderPath]
  rw [h1 _ (by simp [ha]), h1 _ ha, List.flatMap_append, flatMap_joinSlash hr]

theorem okSegs_append {a b : List Bytes} (ha : okSegs a) (hb : okSegs b) : okSegs (a ++ b) := by
  intro x hx; rcases List.mem_append.1 hx with h | h
  · exact ha x h
  · exact hb x h

theorem route_render_id_rest {t : Bytes} {rest : List Bytes} (hok : okSegs (idSeg :: t :: rest)) :
    route (renderPath (idSeg :: t :: rest)) = .id := by
  have hm := muxClean_render hok (by simp)
  have hr : renderPath (idSeg :: t :: rest) = idPrefix ++ (t ++ (rest.flatMap fun p => slash :: p)) := by
    simp [renderPath, idPrefix]
  unfold route
  rw [hm, hr]
  have h1 : (idPrefix ++ (t ++ (rest.flatMap fun p => slash :: p))).head? = some slash := by simp [idPrefix]
  have h2 : ¬ (idPrefix ++ (t ++ (rest.flatMap fun p => slash :: p)) = slash :: cfgKey ∨
      idPrefix ++ (t ++ (rest.flatMap fun p => slash :: p)) = slash :: idSeg) := by
    simp [idPrefix, cfgKey, idSeg]
  have h3 : cfgPrefix.isPrefixOf (idPrefix ++ (t ++ (rest.flatMap fun p => slash :: p))) = false := by
    simp [cfgPrefix, idPrefix, cfgKey, idSeg, List.isPrefixOf]
  have h4 : idPrefix.isPrefixOf (idPrefix ++ (t ++ (rest.flatMap fun p => slash :: p))) = true := by
    rw [List.isPrefixOf_iff_prefix]; exact List.prefix_append _ _
  simp [h1, h2, h3, h4]

/-- `handleConfigID` appends the rest of the request path to the expanded path -/
theorem handleConfigID_rest {idx : Index} {t : Bytes} {segs rest : List Bytes} (hokid : okSegs (idSeg :: t :: rest))
    (hc : candidates t idx = [renderPath segs]) (hok : okSegs segs) (hne : segs ≠ []) :
    handleConfigID idx (renderPath (idSeg :: t :: rest)) = .to (rootSlash (renderPath (segs ++ rest))) := by
  have hrest : okSegs rest := fun x hx => hokid x (by simp [hx])
  have ht : t ≠ [] := (hokid t (by simp)).1
  unfold handleConfigID
  rw [splitSlash_render hokid (by simp)]
  simp only
  simp only [ht, if_false, hc]
  have : ¬ (([] : Bytes) ≠ [] ∨ idSeg ≠ idSeg) := by simp
  simp only [this, if_false]
  cases rest with
  | nil => simp [joinSlash, cleanRooted_render_slash hok hne]
  | cons r0 r' =>
    rw [← renderPath_append hne (by simp), cleanRooted_render (okSegs_append hok hrest) (by simp [hne])]

theorem handleConfig_path_irrelevant (env : Env) (r : Req) (x p : Bytes) (s : State) :
    handleConfig env { r with path := x } p s = handleConfig env r p s := by
  unfold handleConfig; rfl

end CaddyModel.C12
