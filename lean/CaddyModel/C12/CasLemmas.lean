/-
C12 — read–modify–write: what PATCH does to the value GET reads, and the If-Match header.
-/
import CaddyModel.C12.StripLemmas
import CaddyModel.C12.Cas

namespace CaddyModel.C12

theorem lastOp_is_obj (m : Method) (ell : Bool) (val : Json) (part : Bytes) (kvs : Obj) (child : Option Json) :
    ∃ kvs', (lastOp m ell val part kvs child).1 = .obj kvs' := by
  cases m <;> simp only [lastOp] <;> (repeat' split) <;> exact ⟨_, rfl⟩

/-- **PATCH then GET.** Where GET reads a value and PATCH succeeds, GET afterwards reads
    exactly the patched value. -/
theorem patch_then_get (ell : Bool) (v0 v1 val : Json) : ∀ (parts : List Bytes) (node : Json) (x : Json) (o : Option Json),
    (trav .get ell v0 parts node).2 = .ok (some x) →
    (trav .patch ell val parts node).2 = .ok o →
    (trav .get ell v1 parts (trav .patch ell val parts node).1).2 = .ok (some val) := by
  intro parts
  induction parts with
  | nil => intro node x o hg; simp [trav_nil] at hg
  | cons part rest ih =>
    intro node x o hg hp
    cases node with
    | obj kvs =>
      rcases trav_obj_cases .get ell v0 part rest kvs with ⟨arr, idxStr, rfl, hl, heq⟩ | ⟨rfl, heq⟩ | ⟨a, b, rfl, hns, heq⟩
      · -- the array is the destination
        rw [heq] at hg
        obtain ⟨i, ha, h0, h1, hx⟩ := arrayOp_get_ok (by simpa [inArrayDest] using hg)
        rw [trav_obj_special hl, arrayOp_patch_ok ha h0 h1]
        simp only [inArrayDest]
        rw [trav_obj_special (lookup_replaceKey_same (by simp [hl]))]
        simp only [inArrayDest]
        apply arrayOp_get_at ha h0 (by simpa using h1)
        have : i.toNat < arr.length := by omega
        simp [this]
      · -- last part names a key of this object
        rw [trav_obj_last] at hp ⊢
        cases hl : lookup part kvs with
        | none => simp [lastOp, hl] at hp
        | some c =>
          simp only [lastOp, hl, Option.isSome_some, if_true]
          rw [trav_obj_last]
          simp [lastOp, lookup_setKey_same, encodeOf]
      · -- an intermediate part
        rw [heq] at hg
        rw [trav_obj_mid hns] at hp ⊢
        have hc : ¬ (isNil (lookup part kvs) && Method.get == .put) = true := by simp
        have hc' : ¬ (isNil (lookup part kvs) && Method.patch == .put) = true := by simp
        rw [if_neg hc] at hg
        rw [if_neg hc'] at hp ⊢
        cases hl : lookup part kvs with
        | none => simp [hl] at hg
        | some c =>
          simp only [hl, inObj] at hg hp ⊢
          have ih' := ih c x o hg hp
          have hl' : lookup part (replaceKey part (trav .patch ell val (a :: b) c).1 kvs) = some (trav .patch ell val (a :: b) c).1 :=
            lookup_replaceKey_same (by simp [hl])
          have hns' : ∀ arr, lookup part (replaceKey part (trav .patch ell val (a :: b) c).1 kvs) = some (.arr arr) → b ≠ [] := by
            intro arr harr hb
            subst hb
            rw [hl'] at harr
            cases c with
            | obj ckvs =>
              rw [trav_obj_last] at harr
              obtain ⟨k', hk'⟩ := lastOp_is_obj .patch ell val a ckvs (lookup a ckvs)
              simp at harr
              rw [hk'] at harr; cases harr
            | arr cxs => exact hns cxs hl rfl
            | null => rw [trav_scalar (by simp) (by simp)] at hp; simp at hp
            | bool _ => rw [trav_scalar (by simp) (by simp)] at hp; simp at hp
            | num _ => rw [trav_scalar (by simp) (by simp)] at hp; simp at hp
            | str _ => rw [trav_scalar (by simp) (by simp)] at hp; simp at hp
          rw [trav_obj_mid hns', if_neg (by simp)]
          simp only [hl', inObj]
          exact ih'
    | arr xs =>
      rcases trav_arr_cases .get ell v0 part rest xs with ⟨_, heq⟩ | ⟨i, _, _, heq⟩ | ⟨i, c, ha, h0, hlt, hx, ⟨arr, idxStr, rfl, rfl, heq⟩ | ⟨hns, heq⟩⟩
      · rw [heq] at hg; simp at hg
      · rw [heq] at hg; simp at hg
      · -- the destination array is an element of this array
        rw [heq] at hg
        obtain ⟨j, hj, hj0, hj1, hjx⟩ := arrayOp_get_ok (by simpa [inArrayElem] using hg)
        rw [trav_arr_special ha h0 hlt hx, arrayOp_patch_ok hj hj0 hj1]
        simp only [inArrayElem]
        have hlt' : i < ((xs.set i.toNat (.arr (arr.set j.toNat val))).length : Int) := by simpa using hlt
        have hlt2 : i.toNat < xs.length := by omega
        rw [trav_arr_special (arr := arr.set j.toNat val) ha h0 hlt' (by simp [List.getElem?_set_self hlt2])]
        simp only [inArrayElem]
        apply arrayOp_get_at hj hj0 (by simpa using hj1)
        have : j.toNat < arr.length := by omega
        simp [this]
      · rw [heq] at hg
        rw [trav_arr_in ha h0 hlt hx hns] at hp ⊢
        simp only [inArr] at hg hp ⊢
        have ih' := ih c x o hg hp
        have hlt' : i < ((xs.set i.toNat (trav .patch ell val rest c).1).length : Int) := by simpa using hlt
        have hlt2 : i.toNat < xs.length := by omega
        -- the patched element is an array only if the element was (and then `rest` is not a single index)
        have hns' : ∀ arr idxStr, (trav .patch ell val rest c).1 = .arr arr → rest ≠ [idxStr] := by
          intro arr idxStr harr hr
          subst hr
          cases c with
          | obj ckvs =>
            rw [trav_obj_last] at harr
            obtain ⟨k', hk'⟩ := lastOp_is_obj .patch ell val idxStr ckvs (lookup idxStr ckvs)
            rw [hk'] at harr; cases harr
          | arr cxs => exact hns cxs idxStr rfl rfl
          | null => rw [trav_scalar (by simp) (by simp)] at hp; simp at hp
          | bool _ => rw [trav_scalar (by simp) (by simp)] at hp; simp at hp
          | num _ => rw [trav_scalar (by simp) (by simp)] at hp; simp at hp
          | str _ => rw [trav_scalar (by simp) (by simp)] at hp; simp at hp
        rw [trav_arr_in (c := (trav .patch ell val rest c).1) ha h0 hlt' (by simp [List.getElem?_set_self hlt2]) hns']
        simp only [inArr]
        exact ih'
    | null => rw [trav_scalar (by simp) (by simp)] at hg; simp at hg
    | bool _ => rw [trav_scalar (by simp) (by simp)] at hg; simp at hg
    | num _ => rw [trav_scalar (by simp) (by simp)] at hg; simp at hg
    | str _ => rw [trav_scalar (by simp) (by simp)] at hg; simp at hg

/-! ### the If-Match header -/

def noSpace (w : Bytes) : Prop := ∀ c ∈ w, isSpace c = false

theorem fieldsGo_word : ∀ (w : Bytes), noSpace w → ∀ (rest cur : Bytes),
    fieldsGo (w ++ rest) cur = fieldsGo rest (w.reverse ++ cur)
  | [], _, rest, cur => by simp
  | c :: w, hw, rest, cur => by
    have hc : isSpace c = false := hw c (by simp)
    have hw' : noSpace w := fun d hd => hw d (by simp [hd])
    simp only [List.cons_append, fieldsGo, hc]
    rw [fieldsGo_word w hw' rest (c :: cur)]
    simp

theorem fieldsGo_two {p h : Bytes} (hp : p ≠ []) (hps : noSpace p) (hh : h ≠ []) (hhs : noSpace h) :
    fieldsGo (p ++ 32 :: h) [] = [p, h] := by
  rw [fieldsGo_word p hps]
  have h1 : isSpace 32 = true := by decide
  have h2 : (p.reverse ++ ([] : Bytes)).isEmpty = false := by simp [hp]
  simp only [fieldsGo, h1, h2, if_true]
  have := fieldsGo_word h hhs [] []
  simp only [List.append_nil] at this
  rw [this]
  simp [fieldsGo, hh]

/-- `changeConfig` with a well-formed `If-Match: "<p> <h>"` -/
theorem change_cas {env : Env} {m : Method} {path : Bytes} {body : Body} {force : Bool} {s : State} {p h : Bytes}
    (hp : p ≠ []) (hps : noSpace p) (hh : h ≠ []) (hhs : noSpace h) :
    change env m path body (mkEtag p h) force s =
      match access .get p .empty s.rawCfg with
      | (_, .err e) => (s, .ifMatchAccess e)
      | (_, .panic) => (s, .panic)
      | (_, .ok out) => if env.hash out ≠ h then (s, .precondition) else mutate env m path body force s := by
  unfold change
  have hm : mkEtag p h = (quote :: (p ++ 32 :: h)) ++ [quote] := by simp [mkEtag]
  have h1 : mkEtag p h ≠ [] := by simp [mkEtag]
  have h2 : ¬ ((mkEtag p h).length < 2 ∨ (mkEtag p h).head? ≠ some quote ∨ (mkEtag p h).getLast? ≠ some quote) := by
    rw [hm, List.getLast?_concat]; simp; omega
  have h3 : ((mkEtag p h).drop 1).dropLast = p ++ 32 :: h := by
    rw [hm]; simp only [List.cons_append, List.drop_succ_cons, List.drop_zero]
    exact List.dropLast_concat
  rw [if_neg h1, if_neg h2, h3, fieldsGo_two hp hps hh hhs]
  dsimp only
  generalize access .get p .empty s.rawCfg = ar
  obtain ⟨a, r⟩ := ar
  cases r <;> rfl

/-! ### access level -/

theorem access_patch_then_get {path : Bytes} {root : Json} {val x : Json} {o : Option Json}
    (hg : (access .get path .empty root).2 = .ok (some x))
    (hp : (access .patch path (.val val) root).2 = .ok o) :
    (access .get path .empty (access .patch path (.val val) root).1).2 = .ok (some val) := by
  unfold access at hg hp ⊢
  by_cases ht : trimSlash path = []
  · simp [ht] at hg
  · have hb1 : ¬ (Body.empty = Body.bad) := by decide
    have hb2 : ¬ (Body.val val = Body.bad) := by simp
    simp only [if_neg hb1, if_neg hb2, if_neg ht] at hg hp ⊢
    exact patch_then_get _ _ _ _ _ _ _ _ hg hp

theorem trav_patch_keeps_key (ell : Bool) (val : Json) (rest : List Bytes) (root : Json) (h : RootShape root)
    (hk : hasCfgKey root = true) : hasCfgKey (trav .patch ell val (cfgKey :: rest) root).1 = true := by
  rcases h with h | ⟨d, h⟩ <;> subst h
  · simp [hasCfgKey, lookup] at hk
  · rcases trav_obj_cases .patch ell val cfgKey rest [(cfgKey, d)] with ⟨arr, idxStr, rfl, hl, heq⟩ | ⟨rfl, heq⟩ | ⟨a, b, rfl, hns, heq⟩
    · rw [heq]; simp [inArrayDest, replaceKey, hasCfgKey, lookup]
    · rw [heq]; simp [lastOp, lookup, setKey, replaceKey, hasCfgKey]
    · rw [heq]; simp [lookup, inObj, replaceKey, hasCfgKey]

theorem access_patch_keeps_key {path : Bytes} {body : Body} {root : Json} (hp : underConfig path) (h : RootShape root)
    (hk : hasCfgKey root = true) : hasCfgKey (access .patch path body root).1 = true := by
  obtain ⟨rest, hp⟩ := hp
  unfold access
  split
  · exact hk
  · split
    · exact hk
    · rw [hp]; exact trav_patch_keeps_key _ _ _ _ h hk

theorem serve_config {env : Env} {r : Req} {s : State} (h : route r.path = .config) :
    serve env r s = handleConfig env r r.path s := by
  unfold serve; simp [h]

end CaddyModel.C12
