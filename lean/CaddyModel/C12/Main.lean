import CaddyModel.Util.DrvMain
import CaddyModel.C12.Driver

def main (args : List String) : IO Unit :=
  CaddyModel.drvMain "C12" CaddyModel.C12.handle CaddyModel.C12.witnessLines args
