/-
C12 — lemmas about the process-global state: the shape of `rawCfg`, the invariant that
ties `rawCfg`, `rawCfgJSON`, `rawCfgIndex` and the running configuration together, and
what each exit of `changeConfig` does to it.
-/
import CaddyModel.C12.Lemmas

namespace CaddyModel.C12

/-- `rawCfg` is the map `{"config": d}` or — after `DELETE /config/` — the empty map -/
def RootShape (r : Json) : Prop := r = .obj [] ∨ ∃ d, r = .obj [(cfgKey, d)]

theorem arrayOp_fst_eq (m : Method) (ell : Bool) (val : Json) (idxStr : Bytes) (arr : List Json) :
    ∃ arr', (arrayOp m ell val idxStr arr).1 = arr' := ⟨_, rfl⟩

theorem lastOp_root (m : Method) (ell : Bool) (val : Json) (kvs : Obj) (h : RootShape (.obj kvs)) :
    RootShape (lastOp m ell val cfgKey kvs (lookup cfgKey kvs)).1 := by
  rcases h with h | ⟨d, h⟩ <;> simp at h <;> subst h
  · cases m <;> simp [lastOp, lookup, setKey, insertSorted, RootShape]
  · cases m <;> simp only [lastOp, lookup] <;> (repeat' split) <;>
      simp_all [setKey, lookup, replaceKey, eraseKey, RootShape]

/-- a request whose path starts with `config` keeps `rawCfg` of that shape -/
theorem trav_root (m : Method) (ell : Bool) (val : Json) (rest : List Bytes) (root : Json) (h : RootShape root) :
    RootShape (trav m ell val (cfgKey :: rest) root).1 := by
  have hobj : ∃ kvs, root = .obj kvs := by rcases h with h | ⟨d, h⟩ <;> exact ⟨_, h⟩
  obtain ⟨kvs, rfl⟩ := hobj
  rcases trav_obj_cases m ell val cfgKey rest kvs with ⟨arr, idxStr, rfl, hl, heq⟩ | ⟨rfl, heq⟩ | ⟨a, b, rfl, hns, heq⟩
  · rw [heq]
    rcases h with h | ⟨d, h⟩ <;> simp at h <;> subst h
    · simp [lookup] at hl
    · simp [inArrayDest, replaceKey, RootShape]
  · rw [heq]; exact lastOp_root m ell val kvs h
  · rw [heq]
    rcases h with h | ⟨d, h⟩ <;> simp at h <;> subst h
    · split
      · simp [inNewObj, setKey, lookup, insertSorted, RootShape]
      · simp [lookup, RootShape]
    · split
      · simp [inNewObj, setKey, lookup, replaceKey, RootShape]
      · simp [lookup, inObj, replaceKey, RootShape]

theorem setCfg_root {root : Json} (h : RootShape root) (v : Json) : setCfg v root = .obj [(cfgKey, v)] := by
  rcases h with h | ⟨d, h⟩ <;> subst h <;> simp [setCfg, setKey, lookup, insertSorted, replaceKey]

theorem cfgOf_root_eq {root : Json} (h : RootShape root) (hk : hasCfgKey root = true) :
    root = .obj [(cfgKey, cfgOf root)] := by
  rcases h with h | ⟨d, h⟩ <;> subst h
  · simp [hasCfgKey, lookup] at hk
  · simp [cfgOf, lookup, encodeOf]

/-- what ties the four globals together between two requests -/
structure Inv (s : State) : Prop where
  shape : RootShape s.rawCfg
  /-- the in-memory document is the last configuration that was loaded -/
  doc : cfgOf s.rawCfg = encodeOf s.rawCfgJSON
  /-- the id index is the index of that configuration -/
  idx : match s.rawCfgJSON with
    | none => s.index = []
    | some j => indexJ j (slash :: cfgKey) = some s.index
  /-- the apps run that configuration, `@id`s removed -/
  run : s.running = s.rawCfgJSON.map stripIds
  clean : ∀ j, s.rawCfgJSON = some j → stripBreaks j = false

theorem inv_init : Inv initState := by
  refine ⟨Or.inr ⟨.null, rfl⟩, ?_, ?_, ?_, ?_⟩ <;> simp [initState, cfgOf, lookup, encodeOf]

/-- the path addresses something below `rawCfg["config"]` -/
def underConfig (path : Bytes) : Prop := ∃ rest, (pathParts path).1 = cfgKey :: rest

theorem access_root {m : Method} {path : Bytes} {body : Body} {root : Json}
    (hp : underConfig path) (h : RootShape root) : RootShape (access m path body root).1 := by
  obtain ⟨rest, hp⟩ := hp
  unfold access
  split
  · exact h
  · split
    · exact h
    · rw [hp]; exact trav_root _ _ _ _ _ h

theorem access_notok_pure {m : Method} {path : Bytes} {body : Body} {root : Json}
    (h : ∀ out, (access m path body root).2 ≠ .ok out) : (access m path body root).1 = root := by
  unfold access at h ⊢
  split
  · rfl
  · split
    · rfl
    · next h1 h2 => simp only [h1, h2, if_false] at h; exact trav_notok_pure _ _ _ _ _ h

theorem access_get_pure (path : Bytes) (body : Body) (root : Json) : (access .get path body root).1 = root := by
  unfold access
  split
  · rfl
  · split
    · rfl
    · exact trav_get_pure _ _ _ _

theorem access_no_panic (m : Method) (path : Bytes) (body : Body) (root : Json) : (access m path body root).2 ≠ .panic := by
  unfold access
  split
  · simp
  · split
    · simp
    · exact trav_no_panic _ _ _ _ _

theorem eraseCfg_root {root : Json} (h : RootShape root) : eraseCfg root = .obj [] := by
  rcases h with h | ⟨d, h⟩ <;> subst h <;> simp [eraseCfg, eraseKey]

theorem root_nokey {root : Json} (h : RootShape root) (hk : hasCfgKey root = false) : root = .obj [] := by
  rcases h with h | ⟨d, h⟩ <;> subst h
  · rfl
  · simp [hasCfgKey, lookup] at hk

/-- `restoreOldCfg` puts back exactly what was there -/
theorem restore_eq {s : State} {root : Json} (hi : Inv s) (hr : RootShape root) : restore s root = s := by
  unfold restore
  cases hk : hasCfgKey s.rawCfg with
  | true =>
    have h1 := cfgOf_root_eq hi.shape hk
    simp only [if_true]
    rw [setCfg_root hr, ← hi.doc, ← h1]
  | false =>
    simp only [Bool.false_eq_true, if_false]
    rw [eraseCfg_root hr, ← root_nokey hi.shape hk]

theorem restore_inv {s : State} {root : Json} (hi : Inv s) (hr : RootShape root) : Inv (restore s root) := by
  rw [restore_eq hi hr]; exact hi

theorem commit_inv {env : Env} {force : Bool} {s : State} {root : Json} (hi : Inv s) (hr : RootShape root) :
    Inv (commit env force s root).1 := by
  unfold commit
  split
  · next hc =>
    simp at hc
    refine ⟨hr, ?_, hi.idx, hi.run, hi.clean⟩
    simp [hc.2, encodeOf]
  · split
    · exact restore_inv hi hr
    · next idx hidx =>
      split
      · exact restore_inv hi hr
      · next hacc =>
        simp at hacc
        exact ⟨hr, by simp [encodeOf], by simpa using hidx, by simp, by intro j hj; simp at hj; subst hj; exact hacc.1⟩

/-- the exits of `commit` that are not "loaded" or "unchanged" put everything back -/
theorem commit_rejected {env : Env} {force : Bool} {s : State} {root : Json} (hi : Inv s) (hr : RootShape root)
    (h : (commit env force s root).2 ≠ .ok) (h' : (commit env force s root).2 ≠ .same) :
    (commit env force s root).1 = s := by
  unfold commit at h h' ⊢
  split
  · next hc => simp [hc] at h'
  · next hc =>
    simp only [hc] at h h'
    split
    · exact restore_eq hi hr
    · next idx hidx =>
      simp only [hidx] at h h'
      split
      · exact restore_eq hi hr
      · next hacc => simp [hacc] at h

theorem mutate_inv {env : Env} {m : Method} {path : Bytes} {body : Body} {force : Bool} {s : State}
    (hi : Inv s) (hp : underConfig path) : Inv (mutate env m path body force s).1 := by
  unfold mutate
  have hr : RootShape (access m path body s.rawCfg).1 := access_root hp hi.shape
  split
  · next root e heq =>
    have := access_notok_pure (m := m) (path := path) (body := body) (root := s.rawCfg) (by rw [heq]; simp)
    rw [heq] at this; simp at this; subst this; exact hi
  · next root heq => exact absurd (by rw [heq]) (access_no_panic m path body s.rawCfg)
  · next root out heq => rw [heq] at hr; exact commit_inv hi hr

theorem mutate_rejected {env : Env} {m : Method} {path : Bytes} {body : Body} {force : Bool} {s : State}
    (hi : Inv s) (hp : underConfig path)
    (h : (mutate env m path body force s).2 ≠ .ok) (h' : (mutate env m path body force s).2 ≠ .same) :
    (mutate env m path body force s).1 = s := by
  unfold mutate at h h' ⊢
  have hr : RootShape (access m path body s.rawCfg).1 := access_root hp hi.shape
  split
  · next root e heq =>
    have := access_notok_pure (m := m) (path := path) (body := body) (root := s.rawCfg) (by rw [heq]; simp)
    rw [heq] at this; simp at this; subst this; rfl
  · next root heq => exact absurd (by rw [heq]) (access_no_panic m path body s.rawCfg)
  · next root out heq =>
    rw [heq] at hr h h'
    exact commit_rejected hi hr h h'

theorem change_inv {env : Env} {m : Method} {path : Bytes} {body : Body} {ifm : Bytes} {force : Bool} {s : State}
    (hi : Inv s) (hp : underConfig path) : Inv (change env m path body ifm force s).1 := by
  unfold change
  split
  · exact mutate_inv hi hp
  · split
    · exact hi
    · split
      · split
        · exact hi
        · exact hi
        · split
          · exact hi
          · exact mutate_inv hi hp
      · exact hi

theorem change_rejected {env : Env} {m : Method} {path : Bytes} {body : Body} {ifm : Bytes} {force : Bool} {s : State}
    (hi : Inv s) (hp : underConfig path)
    (h : (change env m path body ifm force s).2 ≠ .ok) (h' : (change env m path body ifm force s).2 ≠ .same) :
    (change env m path body ifm force s).1 = s := by
  unfold change at h h' ⊢
  split
  · next hc => simp only [hc, if_true] at h h'; exact mutate_rejected hi hp h h'
  · next hc =>
    simp only [hc, if_false] at h h'
    split
    · rfl
    · next hq =>
      simp only [hq, if_false] at h h'
      split
      · next p hh hf =>
        simp only [hf] at h h'
        split
        · rfl
        · rfl
        · next out heq =>
          simp only [heq] at h h'
          split
          · rfl
          · next hne => simp only [hne, if_false] at h h'; exact mutate_rejected hi hp h h'
      · rfl

end CaddyModel.C12
