import CaddyModel.C12.Props
open CaddyModel.C12
#print axioms error_pure
#print axioms get_pure
#print axioms access_never_panics
#print axioms get_is_lookup
#print axioms get_returns_every_value
#print axioms get_is_lookup_old_code_fails
#print axioms write_effect_put
#print axioms write_effect_patch
#print axioms write_effect_post
#print axioms write_effect_delete
#print axioms write_effect_old_code_fails
#print axioms write_frame
#print axioms if_match_succeeds_only_if_unchanged
#print axioms if_match_mismatch_changes_nothing
#print axioms cas_no_lost_update
#print axioms cas_counter
#print axioms id_resolves_partial
#print axioms id_resolves_full_fails
#print axioms id_on_root_old_code_fails
#print axioms running_config_is_document
#print axioms rejected_changes_nothing
#print axioms rejected_changes_nothing_old_code_fails
#print axioms ids_never_change_meaning
