/-
C12 — `indexConfigObjects` files exactly the tagged objects, each under the `path.Join` of
its position; and a tagged position really names that object.
-/
import CaddyModel.C12.IndexLemmas
import CaddyModel.C12.FrameLemmas

namespace CaddyModel.C12

/-- the index entry of a tagged object: its id text and `path.Join` folded over its position -/
def entryOf (p : Bytes) (e : List Bytes × Bytes) : Bytes × Bytes := (e.2, e.1.foldl pathJoin p)

theorem append2_some {a b : Option Index} {idx : Index} (h : append2 a b = some idx) :
    ∃ x y, a = some x ∧ b = some y ∧ idx = x ++ y := by
  cases a <;> cases b <;> simp [append2] at h
  exact ⟨_, _, rfl, rfl, h.symm⟩

theorem consIdx_some {id : Option Bytes} {p : Bytes} {r : Option Index} {idx : Index} (h : consIdx id p r = some idx) :
    ∃ t y, id = some t ∧ r = some y ∧ idx = (t, p) :: y := by
  cases r <;> cases id <;> simp [consIdx] at h
  exact ⟨_, _, rfl, rfl, h.symm⟩

theorem map_entry_cons (k : Bytes) (p : Bytes) (l : List (List Bytes × Bytes)) :
    (l.map (fun e => (k :: e.1, e.2))).map (entryOf p) = l.map (entryOf (pathJoin p k)) := by
  simp [List.map_map, entryOf, Function.comp_def]

mutual
theorem indexJ_tagged : ∀ (j : Json) (p : Bytes) (idx : Index), indexJ j p = some idx → idx = (taggedJ j).map (entryOf p)
  | .obj kvs, p, idx, h => by rw [indexJ] at h; rw [taggedJ]; exact indexO_tagged kvs p idx h
  | .arr xs, p, idx, h => by rw [indexJ] at h; rw [taggedJ]; exact indexL_tagged xs 0 p idx h
  | .null, p, idx, h => by simp [indexJ] at h; simp [taggedJ, h]
  | .bool _, p, idx, h => by simp [indexJ] at h; simp [taggedJ, h]
  | .num _, p, idx, h => by simp [indexJ] at h; simp [taggedJ, h]
  | .str _, p, idx, h => by simp [indexJ] at h; simp [taggedJ, h]
theorem indexO_tagged : ∀ (kvs : Obj) (p : Bytes) (idx : Index), indexO kvs p = some idx → idx = (taggedO kvs).map (entryOf p)
  | [], p, idx, h => by simp [indexO] at h; simp [taggedO, h]
  | (k, v) :: r, p, idx, h => by
    rw [indexO] at h
    rw [taggedO]
    split at h
    · next hk =>
      obtain ⟨t, y, ht, hy, rfl⟩ := consIdx_some h
      have := indexO_tagged r p y hy
      simp [hk, ht, entryOf, this]
    · next hk =>
      obtain ⟨x, y, hx, hy, rfl⟩ := append2_some h
      have h1 := indexJ_tagged v (pathJoin p k) x hx
      have h2 := indexO_tagged r p y hy
      simp only [hk, if_false, List.map_append, map_entry_cons]
      rw [← h1, ← h2]
theorem indexL_tagged : ∀ (xs : List Json) (i : Nat) (p : Bytes) (idx : Index), indexL xs i p = some idx →
    idx = (taggedL xs i).map (entryOf p)
  | [], i, p, idx, h => by simp [indexL] at h; simp [taggedL, h]
  | x :: xs, i, p, idx, h => by
    rw [indexL] at h
    rw [taggedL]
    obtain ⟨a, b, ha, hb, rfl⟩ := append2_some h
    have h1 := indexJ_tagged x (pathJoin p (natDigits i)) a ha
    have h2 := indexL_tagged xs (i + 1) p b hb
    simp only [List.map_append, map_entry_cons]
    rw [← h1, ← h2]
end

theorem candidates_map (t p : Bytes) : ∀ (l : List (List Bytes × Bytes)),
    candidates t (l.map (entryOf p)) = (l.filter (fun e => e.2 = t)).map (fun e => e.1.foldl pathJoin p)
  | [] => by simp [candidates]
  | e :: l => by
    have ih := candidates_map t p l
    unfold candidates at ih ⊢
    simp only [List.map_cons, List.filter_cons, entryOf]
    by_cases h : e.2 = t
    · simp [h]; simpa [entryOf] using ih
    · simp [h]; simpa [entryOf] using ih

/-- folding `path.Join` over addressable segments just appends them -/
theorem foldl_pathJoin_ok : ∀ {segs base : List Bytes}, okSegs base → base ≠ [] → okSegs segs →
    segs.foldl pathJoin (renderPath base) = renderPath (base ++ segs)
  | [], base, _, _, _ => by simp
  | k :: r, base, hb, hne, hs => by
    simp only [List.foldl_cons]
    rw [pathJoin_ok hb hne (hs k (by simp))]
    have hb' : okSegs (base ++ [k]) := by
      intro x hx; simp at hx; rcases hx with hx | hx
      · exact hb x hx
      · rw [hx]; exact hs k (by simp)
    rw [foldl_pathJoin_ok hb' (by simp) (fun x hx => hs x (by simp [hx]))]
    simp

/-! ### a tagged position names its object -/

/-- the position `e.1` inside `j` holds an object whose `@id` is indexed under `e.2` -/
def EntryJ (j : Json) (e : List Bytes × Bytes) : Prop :=
  ∃ kvs v, sget e.1 j = some (.obj kvs) ∧ lookup idKey kvs = some v ∧ idText v = some e.2

theorem lookup_cons_other {k k' : Bytes} {v : Json} {r : Obj} (h : lookup k r = none) (h' : (lookup k' r).isSome) :
    lookup k' ((k, v) :: r) = lookup k' r := by
  have : k' ≠ k := by intro e; subst e; simp [h] at h'
  simp [lookup, this]

/-- an entry of an object's member list: the object's own id, or an entry of a member -/
def EntryO (kvs : Obj) (e : List Bytes × Bytes) : Prop :=
  (e.1 = [] ∧ ∃ v, lookup idKey kvs = some v ∧ idText v = some e.2) ∨
  (∃ k s v, e.1 = k :: s ∧ lookup k kvs = some v ∧ EntryJ v (s, e.2))

theorem EntryO_cons {k : Bytes} {v : Json} {r : Obj} (hk : lookup k r = none) {e : List Bytes × Bytes}
    (h : EntryO r e) : EntryO ((k, v) :: r) e := by
  rcases h with ⟨h1, w, h2, h3⟩ | ⟨k', s, w, h1, h2, h3⟩
  · exact Or.inl ⟨h1, w, by rw [lookup_cons_other hk (by simp [h2])]; exact h2, h3⟩
  · exact Or.inr ⟨k', s, w, h1, by rw [lookup_cons_other hk (by simp [h2])]; exact h2, h3⟩

theorem EntryJ_of_obj {kvs : Obj} {e : List Bytes × Bytes} (h : EntryO kvs e) : EntryJ (.obj kvs) e := by
  rcases h with ⟨h1, w, h2, h3⟩ | ⟨k, s, w, h1, h2, kv, w', h3, h4, h5⟩
  · exact ⟨kvs, w, by rw [h1]; simp [sget], h2, h3⟩
  · exact ⟨kv, w', by rw [h1, sget_obj_cons, h2]; exact h3, h4, h5⟩

mutual
theorem taggedJ_entry : ∀ (j : Json), uniqueKeys j = true → shortArrays j = true → ∀ e ∈ taggedJ j, EntryJ j e
  | .obj kvs, hu, hs, e, he => by
    rw [taggedJ] at he; rw [uniqueKeys] at hu; rw [shortArrays] at hs
    exact EntryJ_of_obj (taggedO_entry kvs hu hs e he)
  | .arr xs, hu, hs, e, he => by
    rw [taggedJ] at he; rw [uniqueKeys] at hu; rw [shortArrays] at hs
    simp at hs
    obtain ⟨i, s, x, h1, h2, h3, kv, w, h4, h5, h6⟩ := taggedL_entry xs 0 hu hs.2 e he
    simp at h1 h2
    have hlt : i < xs.length := (List.getElem?_eq_some_iff.1 h3).1
    have hat : atoi (natDigits i) = some (i : Int) := atoi_natDigits (by omega)
    refine ⟨kv, w, ?_, h5, h6⟩
    rw [h1, sget_arr_cons, hat]
    simp [h3]; exact h4
  | .null, _, _, e, he => by simp [taggedJ] at he
  | .bool _, _, _, e, he => by simp [taggedJ] at he
  | .num _, _, _, e, he => by simp [taggedJ] at he
  | .str _, _, _, e, he => by simp [taggedJ] at he
theorem taggedO_entry : ∀ (kvs : Obj), uniqueKeysO kvs = true → shortArraysO kvs = true → ∀ e ∈ taggedO kvs, EntryO kvs e
  | [], _, _, e, he => by simp [taggedO] at he
  | (k, v) :: r, hu, hs, e, he => by
    rw [taggedO] at he
    rw [uniqueKeysO] at hu; rw [shortArraysO] at hs
    simp at hu hs
    obtain ⟨⟨hk, huv⟩, hur⟩ := hu
    split at he
    · next hid =>
      rw [List.mem_append] at he
      rcases he with he | he
      · cases ht : idText v with
        | none => simp [ht] at he
        | some t =>
          simp [ht] at he; subst he
          exact Or.inl ⟨rfl, v, by simp [lookup, hid], ht⟩
      · exact EntryO_cons hk (taggedO_entry r hur hs.2 e he)
    · next hid =>
      rw [List.mem_append] at he
      rcases he with he | he
      · simp at he
        obtain ⟨s, t, hm, rfl⟩ := he
        exact Or.inr ⟨k, s, v, rfl, by simp [lookup], taggedJ_entry v huv hs.1 (s, t) hm⟩
      · exact EntryO_cons hk (taggedO_entry r hur hs.2 e he)
theorem taggedL_entry : ∀ (xs : List Json) (base : Nat), uniqueKeysL xs = true → shortArraysL xs = true →
    ∀ e ∈ taggedL xs base, ∃ i s x, e.1 = natDigits (base + i) :: s ∧ True ∧ xs[i]? = some x ∧ EntryJ x (s, e.2)
  | [], _, _, _, e, he => by simp [taggedL] at he
  | x :: xs, base, hu, hs, e, he => by
    rw [taggedL] at he
    rw [uniqueKeysL] at hu; rw [shortArraysL] at hs
    simp at hu hs
    rw [List.mem_append] at he
    rcases he with he | he
    · simp at he
      obtain ⟨s, t, hm, rfl⟩ := he
      exact ⟨0, s, x, by simp, trivial, by simp, taggedJ_entry x hu.1 hs.1 (s, t) hm⟩
    · obtain ⟨i, s, y, h1, _, h3, h4⟩ := taggedL_entry xs (base + 1) hu.2 hs.2 e he
      exact ⟨i + 1, s, y, by rw [h1]; congr 2; omega, trivial, by simpa using h3, h4⟩
end

end CaddyModel.C12
