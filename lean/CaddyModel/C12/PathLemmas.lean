/-
C12 — string-level lemmas: a URL path the mux routes to `handleConfig` ("/config/…") is
split by `unsyncedConfigAccess` into parts that begin with "config".
-/
import CaddyModel.C12.StateLemmas

namespace CaddyModel.C12

/-- trailing-slash trim -/
def rtrim (s : Bytes) : Bytes := (s.reverse.dropWhile (· = slash)).reverse

theorem trimSlash_eq (s : Bytes) : trimSlash s = rtrim (s.dropWhile (· = slash)) := rfl

theorem rtrim_cons_ne {a : UInt8} (h : a ≠ slash) (l : Bytes) : rtrim (a :: l) = a :: rtrim l := by
  unfold rtrim
  rw [List.reverse_cons, List.dropWhile_append]
  split
  · next he =>
    have : List.dropWhile (fun x => decide (x = slash)) l.reverse = [] := by simpa using he
    simp [this, List.dropWhile, h]
  · simp

theorem rtrim_slash_cons (l : Bytes) : rtrim (slash :: l) = [] ∨ rtrim (slash :: l) = slash :: rtrim l := by
  unfold rtrim
  rw [List.reverse_cons, List.dropWhile_append]
  split
  · left; simp [List.dropWhile]
  · right; simp

theorem splitSlash_cfg_nil : splitSlash cfgKey = [cfgKey] := by decide

theorem splitSlash_cfg_slash (y : Bytes) : splitSlash (cfgKey ++ slash :: y) = cfgKey :: splitSlash y := by
  simp [cfgKey, slash, splitSlash]

theorem cfgKey_ne_dots : cfgKey ≠ dots := by decide

/-- every path that starts with "/config/" is traversed from `rawCfg["config"]` -/
theorem underConfig_of_prefix {p : Bytes} (h : cfgPrefix.isPrefixOf p = true) : underConfig p := by
  rw [List.isPrefixOf_iff_prefix] at h
  obtain ⟨x, rfl⟩ := h
  have h1 : trimSlash (cfgPrefix ++ x) = cfgKey ++ rtrim (slash :: x) := by
    rw [trimSlash_eq]
    have : (cfgPrefix ++ x).dropWhile (· = slash) = cfgKey ++ slash :: x := by
      simp [cfgPrefix, cfgKey, slash, List.dropWhile]
    rw [this]
    simp only [cfgKey, List.cons_append, List.nil_append]
    repeat rw [rtrim_cons_ne (by decide)]
  have h2 : ∃ ps, splitSlash (trimSlash (cfgPrefix ++ x)) = cfgKey :: ps := by
    rw [h1]
    rcases rtrim_slash_cons x with h | h <;> rw [h]
    · exact ⟨[], by simpa using splitSlash_cfg_nil⟩
    · exact ⟨_, splitSlash_cfg_slash _⟩
  obtain ⟨ps, h2⟩ := h2
  unfold underConfig pathParts
  rw [h2]
  split
  · next hl =>
    cases ps with
    | nil => simp at hl; exact absurd hl cfgKey_ne_dots
    | cons q qs => exact ⟨(q :: qs).dropLast, by simp [List.dropLast]⟩
  · exact ⟨ps, rfl⟩

theorem route_config {p : Bytes} (h : route p = .config) : cfgPrefix.isPrefixOf p = true := by
  unfold route at h
  split at h
  · cases h
  · split at h
    · cases h
    · split at h
      · cases h
      · split at h
        · assumption
        · split at h
          · cases h
          · split at h
            · cases h
            · split at h <;> cases h

/-! ### the HTTP layer keeps the invariant; a request that is not answered 200 changes nothing -/

/-- answers other than 200 -/
def Resp.rejected : Resp → Bool
  | .okGet _ _ => false
  | .okWrite => false
  | .okAdapt _ => false
  | _ => true

theorem changeResp_rejected {c : ChangeRes} (h : (changeResp c).rejected = true) : c ≠ .ok ∧ c ≠ .same := by
  cases c <;> simp_all [changeResp, Resp.rejected]

theorem handleConfig_inv {env : Env} {r : Req} {p : Bytes} {s : State} (hi : Inv s) (hp : underConfig p) :
    Inv (handleConfig env r p s).1 := by
  unfold handleConfig
  split
  · split <;> exact hi
  · exact hi
  · split
    · exact hi
    · split
      · exact hi
      · exact change_inv hi hp

theorem handleConfig_rejected {env : Env} {r : Req} {p : Bytes} {s : State} (hi : Inv s) (hp : underConfig p)
    (h : (handleConfig env r p s).2.rejected = true) :
    (handleConfig env r p s).1 = s := by
  unfold handleConfig at h ⊢
  split
  · split <;> rfl
  · rfl
  · next hm _ _ =>
    split
    · rfl
    · next m hm2 =>
      simp only [hm2] at h
      split
      · rfl
      · next hc =>
        simp only [hc, if_false] at h
        have := changeResp_rejected h
        exact change_rejected hi hp this.1 this.2

theorem underConfig_cfg : underConfig (slash :: cfgKey) := ⟨[], by decide⟩

theorem loadResp_rejected {c : ChangeRes} (h : (loadResp c).rejected = true) : c ≠ .ok ∧ c ≠ .same := by
  cases c <;> simp_all [loadResp, changeResp, Resp.rejected]

theorem handleLoad_inv {env : Env} {r : Req} {s : State} (hi : Inv s) : Inv (handleLoad env r s).1 := by
  unfold handleLoad
  split
  · exact hi
  · split
    · exact hi
    · exact change_inv hi underConfig_cfg

theorem handleLoad_rejected {env : Env} {r : Req} {s : State} (hi : Inv s)
    (h : (handleLoad env r s).2.rejected = true) : (handleLoad env r s).1 = s := by
  unfold handleLoad at h ⊢
  split
  · rfl
  · next hm =>
    simp only [hm, if_false] at h
    split
    · rfl
    · next b hb =>
      simp only [hb] at h
      have := loadResp_rejected h
      exact change_rejected hi underConfig_cfg this.1 this.2

/-- /adapt never touches the state -/
theorem handleAdapt_pure (env : Env) (r : Req) (s : State) : (handleAdapt env r s).1 = s := by
  unfold handleAdapt
  split
  · rfl
  · split <;> rfl

theorem serve_inv {env : Env} {r : Req} {s : State} (hi : Inv s) : Inv (serve env r s).1 := by
  unfold serve
  split
  · exact hi
  · exact hi
  · next hr => exact handleConfig_inv hi (underConfig_of_prefix (route_config hr))
  · exact handleLoad_inv hi
  · rw [handleAdapt_pure]; exact hi
  · split
    · exact hi
    · exact hi
    · split
      · next hr => exact handleConfig_inv hi (underConfig_of_prefix (route_config hr))
      · exact hi
      · exact hi

theorem serve_rejected {env : Env} {r : Req} {s : State} (hi : Inv s)
    (h : (serve env r s).2.rejected = true) : (serve env r s).1 = s := by
  unfold serve at h ⊢
  split
  · rfl
  · rfl
  · next hr =>
    simp only [hr] at h
    exact handleConfig_rejected hi (underConfig_of_prefix (route_config hr)) h
  · next hr =>
    simp only [hr] at h
    exact handleLoad_rejected hi h
  · exact handleAdapt_pure env r s
  · next hr =>
    simp only [hr] at h
    split
    · rfl
    · rfl
    · next p hp =>
      simp only [hp] at h
      split
      · next hr2 =>
        simp only [hr2] at h
        exact handleConfig_rejected hi (underConfig_of_prefix (route_config hr2)) h
      · rfl
      · rfl

end CaddyModel.C12
