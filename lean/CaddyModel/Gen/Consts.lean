-- REGENERATED from /repo by tools/extract on every run. Do not edit.
namespace CaddyModel.Gen

/-- `MatchHost.large`: lists longer than this use the binary-search fast path (matchers.go) -/
def matchHostLargeThreshold : Option Nat := some 100

/-- connection-policy lists longer than this build the SNI index (connpolicy.go) -/
def sniIndexThreshold : Option Nat := some 30

/-- `replace` gives up after more than this many unclosed placeholders (replacer.go) -/
def replacerUnclosedLimit : Option Nat := some 100

end CaddyModel.Gen
