-- REGENERATED from /repo by tools/extract on every run. Do not edit.
namespace CaddyModel.Gen

/-- every `<routes>.Compile(<next>)` call in modules/caddyhttp/** and caddyconfig/httpcaddyfile/**:
    (file:function, receiver, the rest-of-chain argument) -/
def routeCompileCalls : List (String × String × String) := [
  ("modules/caddyhttp/app.go:Provision", "srv.Routes", "emptyHandler"),
  ("modules/caddyhttp/app.go:Provision", "srv.Errors.Routes", "errorEmptyHandler"),
  ("modules/caddyhttp/intercept/intercept.go:ServeHTTP", "rec.handler.Routes", "next"),
  ("modules/caddyhttp/invoke.go:ServeHTTP", "route", "next"),
  ("modules/caddyhttp/reverseproxy/reverseproxy.go:reverseProxy", "rh.Routes", "next"),
  ("modules/caddyhttp/subroute.go:ServeHTTP", "sr.Routes", "HandlerFunc(func literal)"),
  ("modules/caddyhttp/subroute.go:ServeHTTP", "sr.Errors.Routes", "next")]

/-- every `Terminal:` key in a caddyhttp.Route literal written by the Caddyfile adapter: (file:function, value) -/
def adapterTerminalLiterals : List (String × String) := [
  ("caddyconfig/httpcaddyfile/httptype.go:appendSubrouteToRouteList", "true")]

/-- every write of a request-context value the routing reads (`context.WithValue(_, K, _)`, K among
    routeGroupCtxKey / VarsCtxKey / ErrorCtxKey / OriginalRequestCtxKey) under modules/caddyhttp/**:
    (file:function, key, value) -/
def requestCtxWrites : List (String × String × String) := [
  ("modules/caddyhttp/reverseproxy/healthchecks.go:doActiveHealthCheck", "VarsCtxKey", "?{…}"),
  ("modules/caddyhttp/reverseproxy/healthchecks.go:doActiveHealthCheck", "OriginalRequestCtxKey", "*req"),
  ("modules/caddyhttp/server.go:WithError", "ErrorCtxKey", "err"),
  ("modules/caddyhttp/server.go:PrepareRequest", "VarsCtxKey", "?{…}"),
  ("modules/caddyhttp/server.go:PrepareRequest", "routeGroupCtxKey", "make(?)"),
  ("modules/caddyhttp/server.go:PrepareRequest", "OriginalRequestCtxKey", "originalRequest(r,&url2)")]

/-- every mention of `routeGroupCtxKey` inside a function body: (file:function, the call it is an
    argument of — `WithValue` creates the map, `Value` reads it — or "other") -/
def routeGroupCtxUses : List (String × String) := [
  ("modules/caddyhttp/routes.go:wrapRoute", "Value"),
  ("modules/caddyhttp/server.go:PrepareRequest", "WithValue")]

/-- the statements of the outer loop body of `MatcherSets.FromInterface` (one round per loaded matcher set) -/
def fromInterfaceLoopBody : List String := [
  "decl",
  "range matcherSetIfaces",
  "*ms = append(*ms,matcherSet)"]

/-- the statements of the outer loop body of `MatchNot.Provision` (one round per loaded matcher set of a `not`) -/
def matchNotProvisionLoopBody : List String := [
  "decl",
  "range modMap",
  "m.MatcherSets = append(m.MatcherSets,ms)"]

/-- the statements of the loops of `Route.ProvisionHandlers` -/
def provisionHandlersLoops : List String := [
  "range ?: r.Handlers = append(r.Handlers,?)",
  "range r.Handlers: r.middleware = append(r.middleware,wrapMiddleware(ctx,midhandler,metrics))"]

end CaddyModel.Gen
