-- REGENERATED from /repo by tools/extract on every run. Do not edit.
namespace CaddyModel.Gen

/-- every `<routes>.Compile(<next>)` call in modules/caddyhttp/** and caddyconfig/httpcaddyfile/**:
    (file:function, receiver, the rest-of-chain argument) -/
def routeCompileCalls : List (String × String × String) := [
  ("modules/caddyhttp/app.go:Provision", "srv.Routes", "emptyHandler"),
  ("modules/caddyhttp/app.go:Provision", "srv.Errors.Routes", "errorEmptyHandler"),
  ("modules/caddyhttp/intercept/intercept.go:ServeHTTP", "rec.handler.Routes", "next"),
  ("modules/caddyhttp/invoke.go:ServeHTTP", "route", "next"),
  ("modules/caddyhttp/reverseproxy/reverseproxy.go:reverseProxy", "rh.Routes", "next"),
  ("modules/caddyhttp/subroute.go:ServeHTTP", "sr.Routes", "HandlerFunc(func literal)"),
  ("modules/caddyhttp/subroute.go:ServeHTTP", "sr.Errors.Routes", "next")]

/-- every `Terminal:` key in a caddyhttp.Route literal written by the Caddyfile adapter: (file:function, value) -/
def adapterTerminalLiterals : List (String × String) := [
  ("caddyconfig/httpcaddyfile/httptype.go:appendSubrouteToRouteList", "true")]

end CaddyModel.Gen
