-- REGENERATED from /repo by tools/extract on every run. Do not edit.
namespace CaddyModel.Gen

/-- every `<routes>.Compile(<next>)` call in modules/caddyhttp/** and caddyconfig/httpcaddyfile/**:
    (file:function, receiver, the rest-of-chain argument) -/
def routeCompileCalls : List (String × String × String) := [
  ("modules/caddyhttp/app.go:Provision", "srv.Routes", "emptyHandler"),
  ("modules/caddyhttp/app.go:Provision", "srv.Errors.Routes", "errorEmptyHandler"),
  ("modules/caddyhttp/intercept/intercept.go:ServeHTTP", "rec.handler.Routes", "next"),
  ("modules/caddyhttp/invoke.go:ServeHTTP", "route", "next"),
  ("modules/caddyhttp/reverseproxy/reverseproxy.go:reverseProxy", "rh.Routes", "next"),
  ("modules/caddyhttp/subroute.go:ServeHTTP", "sr.Routes", "HandlerFunc(func literal)"),
  ("modules/caddyhttp/subroute.go:ServeHTTP", "sr.Errors.Routes", "next")]

/-- every `Terminal:` key in a caddyhttp.Route literal written by the Caddyfile adapter: (file:function, value) -/
def adapterTerminalLiterals : List (String × String) := [
  ("caddyconfig/httpcaddyfile/httptype.go:appendSubrouteToRouteList", "true")]

/-- writes of the request-context values the routing reads (`context.WithValue(_, K, _)` identified by
    its key argument): (entry point, what, number of such calls in the functions reachable from the
    entry point over same-package static calls — PrepareRequest itself is not followed into from
    Server.ServeHTTP, it has its own row), plus the totals under modules/caddyhttp/** -/
def requestCtxWrites : List (String × String × Nat) := [
  ("PrepareRequest", "WithValue VarsCtxKey", 1),
  ("PrepareRequest", "WithValue OriginalRequestCtxKey", 1),
  ("PrepareRequest", "WithValue ErrorCtxKey", 0),
  ("wrapRoute", "WithValue VarsCtxKey", 0),
  ("wrapRoute", "WithValue OriginalRequestCtxKey", 0),
  ("wrapRoute", "WithValue ErrorCtxKey", 0),
  ("HTTPErrorConfig.WithError", "WithValue VarsCtxKey", 0),
  ("HTTPErrorConfig.WithError", "WithValue OriginalRequestCtxKey", 0),
  ("HTTPErrorConfig.WithError", "WithValue ErrorCtxKey", 1),
  ("Subroute.ServeHTTP", "WithValue VarsCtxKey", 0),
  ("Subroute.ServeHTTP", "WithValue OriginalRequestCtxKey", 0),
  ("Subroute.ServeHTTP", "WithValue ErrorCtxKey", 1),
  ("Server.ServeHTTP", "WithValue VarsCtxKey", 0),
  ("Server.ServeHTTP", "WithValue OriginalRequestCtxKey", 0),
  ("Server.ServeHTTP", "WithValue ErrorCtxKey", 1),
  ("total modules/caddyhttp/**", "WithValue VarsCtxKey", 2),
  ("total modules/caddyhttp/**", "WithValue OriginalRequestCtxKey", 2),
  ("total modules/caddyhttp/**", "WithValue ErrorCtxKey", 1)]

/-- the same for the route-group map: `WithValue` creates it, `Value` reads it, "other" = any other
    mention of `routeGroupCtxKey` inside a function body -/
def routeGroupCtxUses : List (String × String × Nat) := [
  ("PrepareRequest", "WithValue routeGroupCtxKey", 1),
  ("PrepareRequest", "Value routeGroupCtxKey", 0),
  ("wrapRoute", "WithValue routeGroupCtxKey", 0),
  ("wrapRoute", "Value routeGroupCtxKey", 1),
  ("HTTPErrorConfig.WithError", "WithValue routeGroupCtxKey", 0),
  ("HTTPErrorConfig.WithError", "Value routeGroupCtxKey", 0),
  ("Subroute.ServeHTTP", "WithValue routeGroupCtxKey", 0),
  ("Subroute.ServeHTTP", "Value routeGroupCtxKey", 0),
  ("Server.ServeHTTP", "WithValue routeGroupCtxKey", 0),
  ("Server.ServeHTTP", "Value routeGroupCtxKey", 0),
  ("total modules/caddyhttp/**", "WithValue routeGroupCtxKey", 1),
  ("total modules/caddyhttp/**", "Value routeGroupCtxKey", 1),
  ("total modules/caddyhttp/**", "other routeGroupCtxKey", 0)]

/-- the statements of the outer loop body of `MatcherSets.FromInterface` (one round per loaded matcher set) -/
def fromInterfaceLoopBody : List String := [
  "decl",
  "range matcherSetIfaces",
  "*ms = append(*ms,matcherSet)"]

/-- the statements of the outer loop body of `MatchNot.Provision` (one round per loaded matcher set of a `not`) -/
def matchNotProvisionLoopBody : List String := [
  "decl",
  "range modMap",
  "m.MatcherSets = append(m.MatcherSets,ms)"]

/-- the statements of the loops of `Route.ProvisionHandlers` -/
def provisionHandlersLoops : List String := [
  "range ?: r.Handlers = append(r.Handlers,?)",
  "range r.Handlers: r.middleware = append(r.middleware,wrapMiddleware(ctx,midhandler,metrics))"]

end CaddyModel.Gen
