-- REGENERATED from /repo by tools/extract on every run. Do not edit.
namespace CaddyModel.Gen

/-- encode.go `Provision`: Content-Type patterns of the default response matcher, in source order -/
def encodeDefaultContentTypes : List String := ["application/atom+xml*", "application/eot*", "application/font*", "application/geo+json*", "application/graphql+json*", "application/javascript*", "application/json*", "application/ld+json*", "application/manifest+json*", "application/opentype*", "application/otf*", "application/rss+xml*", "application/truetype*", "application/ttf*", "application/vnd.api+json*", "application/vnd.ms-fontobject*", "application/wasm*", "application/x-httpd-cgi*", "application/x-javascript*", "application/x-opentype*", "application/x-otf*", "application/x-perl*", "application/x-protobuf*", "application/x-ttf*", "application/xhtml+xml*", "application/xml*", "font/ttf*", "font/otf*", "image/svg+xml*", "image/vnd.microsoft.icon*", "image/x-icon*", "multipart/bag*", "multipart/mixed*", "text/*"]

/-- encode.go `defaultMinLength` -/
def encodeDefaultMinLength : Option Nat := some 512

/-- encode.go `sniffLen` -/
def encodeSniffLen : Option Nat := some 512

/-- encode.go `responseWriter.init`: the edits `hdr.Del/Set/Add(<field>, …)` in source order -/
def encodeInitHeaderEdits : List String := ["Del Content-Length", "Set Content-Encoding", "Add Vary", "Del Accept-Ranges", "Set Etag"]

/-- encode.go `responseWriter.init`: calls on the pooled encoder `rw.w` and on `writerPools`, in source order -/
def encodeEncoderLifecycleInit : List String := ["Get", "Reset(w)"]

/-- encode.go `responseWriter.Close`: the same for `Close` -/
def encodeEncoderLifecycleClose : List String := ["Close", "Reset(nil)", "Put"]

/-- encode.go `type responseWriter struct`: field names in source order (embedded field by type name) -/
def encodeResponseWriterFields : List String := ["ResponseWriter", "encodingName", "w", "config", "statusCode", "wroteHeader", "isConnect"]

/-- encode.go: every place a `responseWriter` value comes into being (`var` = zero value, literal, `new`, or taken from a call such as a pool's `Get`) -/
def encodeResponseWriterOrigins : List String := ["openResponseWriter: var"]

/-- encode.go `initResponseWriter`: the fields of `rw` it assigns, in source order -/
def encodeInitResponseWriterAssigns : List String := ["ResponseWriter", "encodingName", "config", "isConnect"]

/-- encode/caddyfile.go `UnmarshalCaddyfile`: the formats used when the directive names none -/
def encodeCaddyfileDefaultFormats : List String := ["zstd", "gzip"]

end CaddyModel.Gen
