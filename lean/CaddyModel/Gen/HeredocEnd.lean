-- REGENERATED from /repo by tools/extract on every run. Do not edit.
namespace CaddyModel.Gen

/-- caddyconfig/caddyfile/lexer.go (*lexer).next: the block that reads a heredoc body (`if inHeredoc { … }`), normalised
    source text (no comments, gofmt layout, one entry per line, locals renamed v0, v1, … in order of appearance) -/
def lexerHeredocBlock : List String := ["if v0 {", "v1 = append(v1, v2)", "if v2 == '\\n' {", "v3.skippedLines++", "}", "if len(v1) >= len(v4) && v4 == string(v1[len(v1)-len(v4):]) {", "v1, v5 = v3.finalizeHeredoc(v1, v4)", "if v5 != nil {", "return false, v5", "}", "v3.line += v3.skippedLines", "v3.skippedLines = 0", "return v6('<'), nil", "}", "continue", "}"]

/-- … the condition under which the lexer ends the heredoc (the if-statement that calls finalizeHeredoc) -/
def lexerHeredocEndCond : String := "len(v1) >= len(v4) && v4 == string(v1[len(v1)-len(v4):])"

/-- caddyconfig/caddyfile/formatter.go Format: the formatter's own copy, the block `if heredoc == heredocOpened { … }`,
    normalised the same way -/
def formatterHeredocBlock : List String := ["if v0 == heredocOpened {", "v1 = append(v1, v2)", "if len(v1) > len(v3) {", "v1 = v1[1:]", "}", "v4(v2)", "if slices.Equal(v1, v3) {", "v3 = nil", "v1 = nil", "v0 = heredocClosed", "v5 = true", "} else if v2 == '\\n' {", "v1 = v1[:0]", "}", "continue", "}"]

/-- … the condition under which the formatter ends the heredoc (the if-statement that clears the marker window) -/
def formatterHeredocEndCond : String := "slices.Equal(v1, v3)"

end CaddyModel.Gen
