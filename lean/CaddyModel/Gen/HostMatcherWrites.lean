-- REGENERATED from /repo by tools/extract on every run. Do not edit.
namespace CaddyModel.Gen

/-- identifiers bound to a provisioned host matcher by a type assertion, in the non-test files of
    modules/caddyhttp other than matchers.go -/
def hostMatcherBindings : List String := ["autohttps.go:automaticHTTPSPhase1: hm := m.(*MatchHost)"]

/-- the loops that read such a matcher -/
def hostMatcherRanges : List String := ["autohttps.go:automaticHTTPSPhase1: range *hm"]

/-- every statement that stores into such a matcher (an element or the whole slice) -/
def hostMatcherWrites : List String := []

end CaddyModel.Gen
