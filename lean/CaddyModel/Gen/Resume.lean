-- REGENERATED from /repo by tools/extract on every run. Do not edit.
namespace CaddyModel.Gen

/-- the arguments of the `os.ReadFile` calls of `cmdRun` (cmd/commandfuncs.go), in source order -/
def cmdRunReadFileArgs : List String := ["caddy.ConfigAutosavePath"]

/-- how often `cmdRun` calls `handleEnvFileFlag` -/
def cmdRunEnvFileCalls : Nat := 1

/-- mentions of `caddy.ConfigAutosavePath` in `cmdRun` above its (first) `handleEnvFileFlag` call -/
def cmdRunAutosavePathUsesBeforeEnvFile : Nat := 0

/-- `os.ReadFile` calls of `cmdRun` above its `handleEnvFileFlag` call -/
def cmdRunReadsBeforeEnvFile : Nat := 0

/-- `loadEnvFromFile` (cmd/main.go) assigns `caddy.ConfigAutosavePath` from `caddy.AppConfigDir()` below its last `os.Setenv` -/
def loadEnvFromFileRecomputesAutosavePath : Bool := true

end CaddyModel.Gen
