-- REGENERATED from /repo by tools/extract on every run. Do not edit.
namespace CaddyModel.Gen

/-- caddy.go:run — the events of the load path, call-inlined, in source order -/
def runPhaseOrder : List String := ["provisionContext", "provisionAdminRouters", "cancelFunc", "restoreDefaultStorage", "restoreDefaultLogger", "app.Start", "app.Stop", "cancelFunc", "restoreDefaultStorage", "restoreDefaultLogger", "emitEvent:started", "finishSettingUp", "emitEvent:stopping", "app.Stop", "cancelFunc", "restoreDefaultStorage", "restoreDefaultLogger"]

/-- caddy.go:unsyncedStop — event, app stops, module cleanup -/
def unsyncedStopOrder : List String := ["emitEvent:stopping", "app.Stop", "cancelFunc"]

/-- caddy.go:Stop — call-inlined: the stop events and every assignment to currentCtx -/
def stopOrder : List String := ["emitEvent:stopping", "app.Stop", "cancelFunc", "currentCtx=Context{}"]

/-- caddy.go:Validate — call-inlined (run is atomic) -/
def validateOrder : List String := ["run", "cancelFunc", "restoreDefaultStorage", "restoreDefaultLogger"]

/-- caddytls TLS.Cleanup: where the successor tls app is looked up, and the condition under which one is assumed -/
def tlsCleanupSuccessorLookup : String := "caddy.ActiveContext().AppIfConfigured(\"tls\")"
def tlsCleanupSuccessorCond : String := "err==nil&&nextTLS!=nil&&nextTLS.(*TLS)!=t"

/-- caddytls TLS.Provision: the statements of the block that caches one loaded certificate -/
def tlsProvisionCacheBlock : List String := ["assign:err<-magic.CacheUnmanagedTLSCertificate", "if:err!=nil", "assign:t.loaded[hash]<-\"\""]

end CaddyModel.Gen
