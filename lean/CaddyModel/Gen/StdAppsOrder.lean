-- REGENERATED from /repo by tools/extract on every run. Do not edit.
namespace CaddyModel.Gen

/-- caddy.go:run — the load path's phases, in source order -/
def runPhaseOrder : List String := ["provisionContext", "provisionAdminRouters", "Start", "emitEvent:started", "finishSettingUp", "unsyncedStop"]

/-- caddy.go:unsyncedStop — event, app stops, module cleanup, in source order -/
def unsyncedStopOrder : List String := ["emitEvent:stopping", "Stop", "cancelFunc"]

/-- caddy.go:Stop — unsyncedStop and every assignment to currentCtx, in source order -/
def stopOrder : List String := ["unsyncedStop", "currentCtx=Context{}"]

/-- caddy.go:Validate -/
def validateOrder : List String := ["run", "cancelFunc", "restoreDefaultStorage", "restoreDefaultLogger"]

/-- caddytls TLS.Cleanup: where the successor tls app is looked up, and the condition under which one is assumed -/
def tlsCleanupSuccessorLookup : String := "caddy.ActiveContext().AppIfConfigured(\"tls\")"
def tlsCleanupSuccessorCond : String := "err==nil&&nextTLS!=nil&&nextTLS.(*TLS)!=t"

/-- caddytls TLS.Provision: the statements of the block that caches one loaded certificate -/
def tlsProvisionCacheBlock : List String := ["assign:err<-magic.CacheUnmanagedTLSCertificate", "if:err!=nil", "assign:t.loaded[hash]<-\"\""]

end CaddyModel.Gen
