-- REGENERATED from /repo by tools/extract on every run. Do not edit.
namespace CaddyModel.Gen

/-- in reverseproxy.go the statement right after `countRequest(1)` is `defer …countRequest(-1)` -/
def proxyIncFollowedByDeferredDec : Bool := true
def proxyIncSites : Nat := 1
def proxyDecSites : Nat := 1

end CaddyModel.Gen
