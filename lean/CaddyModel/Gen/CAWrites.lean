-- REGENERATED from /repo by tools/extract on every run. Do not edit.
namespace CaddyModel.Gen

/-- order of `storage.Store` calls performed by `genRoot` (modules/caddypki/ca.go; helpers of the same file
    inlined), by key function -/
def genRootStores : List String := ["storageKeyRootKey", "storageKeyRootCert"]

/-- order of `storage.Store` calls performed by `genIntermediate` -/
def genIntermediateStores : List String := ["storageKeyIntermediateKey", "storageKeyIntermediateCert"]

/-- the key whose absence makes `loadOrGenRoot` generate a new root (its first `storage.Load`) -/
def rootMarker : String := "storageKeyRootCert"

/-- the key whose absence makes `loadOrGenIntermediate` generate a new intermediate -/
def intermediateMarker : String := "storageKeyIntermediateCert"

end CaddyModel.Gen
