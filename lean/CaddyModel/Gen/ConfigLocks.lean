-- REGENERATED from /repo by tools/extract on every run. Do not edit.
namespace CaddyModel.Gen

/-- caddy.go / admin.go: per function, in source order, every lock operation on `rawCfgMu` (deferred ones
    prefixed `defer:`), every call of a function that reads or changes the admin config (`call:<name>`) and
    every assignment to `rawCfgJSON`, `rawCfgIndex` or `rawCfg[…]` (`set:<name>`; function literals walked in place,
    package-level helpers of the two files inlined at their call sites) -/
def configLocks : List (String × List String) := [
  ("changeConfig", ["Lock", "defer:Unlock", "call:etagHasher", "call:unsyncedConfigAccess", "call:unsyncedConfigAccess", "set:rawCfg", "set:rawCfg", "call:indexConfigObjects", "call:unsyncedDecodeAndRun", "set:rawCfgJSON", "set:rawCfgIndex"]),
  ("readConfig", ["RLock", "defer:RUnlock", "call:unsyncedConfigAccess"]),
  ("handleConfig", ["call:etagHasher", "call:readConfig", "call:makeEtag", "call:changeConfig"]),
  ("handleConfigID", ["RLock", "RUnlock"]),
  ("unsyncedConfigAccess", [])
]

/-- admin.go newAdminHandler: every addRoute / addRouteWithMetrics call as `pattern|handler|nesting`
    (nesting 0 = not inside any if/for/switch: registered for the local and the remote endpoint alike) -/
def adminRoutes : List String := ["\"/\"+rawConfigKey+\"/\"|AdminHandlerFunc(handleConfig)|0", "\"/id/\"|AdminHandlerFunc(handleConfigID)|0", "\"/stop\"|AdminHandlerFunc(handleStop)|0", "\"/debug/pprof/\"|http.HandlerFunc(pprof.Index)|0", "\"/debug/pprof/cmdline\"|http.HandlerFunc(pprof.Cmdline)|0", "\"/debug/pprof/profile\"|http.HandlerFunc(pprof.Profile)|0", "\"/debug/pprof/symbol\"|http.HandlerFunc(pprof.Symbol)|0", "\"/debug/pprof/trace\"|http.HandlerFunc(pprof.Trace)|0", "\"/debug/vars\"|expvar.Handler()|0", "route.Pattern|route.Handler|2"]

/-- admin.go handleConfig (package-level helpers inlined): the pooled response buffer, in source order -
    (<fn>, Get | Put | defer:Put) for bufferPool.Get/Put and (<fn>, Write) for w.Write, <fn> = the function whose body
    contains the statement (a deferred Put runs when that function returns) -/
def responseBuffer : List (String × String) := [("handleConfig", "Get"), ("handleConfig", "defer:Put"), ("handleConfig", "Write")]

end CaddyModel.Gen
