-- REGENERATED from /repo by tools/extract on every run. Do not edit.
namespace CaddyModel.Gen

/-- caddy.go / admin.go: per function, in source order, every lock operation on `rawCfgMu` (deferred ones
    prefixed `defer:`), every call of a function that reads or changes the admin config (`call:<name>`) and
    every assignment to `rawCfgJSON`, `rawCfgIndex` or `rawCfg[…]` (`set:<name>`; function literals walked in place) -/
def configLocks : List (String × List String) := [
  ("changeConfig", ["Lock", "defer:Unlock", "call:etagHasher", "call:unsyncedConfigAccess", "call:unsyncedConfigAccess", "set:rawCfg", "set:rawCfg", "call:indexConfigObjects", "call:unsyncedDecodeAndRun", "set:rawCfgJSON", "set:rawCfgIndex"]),
  ("readConfig", ["RLock", "defer:RUnlock", "call:unsyncedConfigAccess"]),
  ("handleConfig", ["call:etagHasher", "call:readConfig", "call:makeEtag", "call:changeConfig"]),
  ("handleConfigID", ["RLock", "RUnlock"]),
  ("unsyncedConfigAccess", [])
]

end CaddyModel.Gen
