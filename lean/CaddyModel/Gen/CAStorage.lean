-- REGENERATED from /repo by tools/extract on every run. Do not edit.
namespace CaddyModel.Gen

/-- CA.Provision (modules/caddypki/ca.go): `<enclosing if conditions> => <value>` of every assignment to the CA's storage field -/
def caStorageAssigns : List String := ["ca.StorageRaw!=nil => cmStorage", "ca.storage==nil => ctx.Storage()"]

/-- storage operations of package caddypki whose receiver does NOT resolve (data flow) to the CA's storage field -/
def caStorageOpsElsewhere : Nat := 0

/-- the kinds of storage operation performed on the CA's storage field -/
def caStorageOpKinds : List String := ["Load", "Store"]

/-- `.Storage()` calls in the package (a context asked for its storage) and mentions of caddy.DefaultStorage / certmagic.Default -/
def caContextStorageCalls : Nat := 1
def caDefaultStorageMentions : Nat := 0

end CaddyModel.Gen
