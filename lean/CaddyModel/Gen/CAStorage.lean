-- REGENERATED from /repo by tools/extract on every run. Do not edit.
namespace CaddyModel.Gen

/-- what CA.Provision (modules/caddypki/ca.go) assigns to `ca.storage`, in source order -/
def caStorageAssigns : List String := ["cmStorage", "ctx.Storage()"]

/-- every storage operation of package caddypki (non-test files): file:operation:receiver -/
def caStorageOps : List String := ["ca.go:Load:ca.storage", "ca.go:Load:ca.storage", "ca.go:Store:ca.storage", "ca.go:Store:ca.storage", "ca.go:Load:ca.storage", "ca.go:Load:ca.storage", "ca.go:Store:ca.storage", "ca.go:Store:ca.storage"]

end CaddyModel.Gen
