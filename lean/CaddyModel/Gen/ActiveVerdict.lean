-- REGENERATED from /repo by tools/extract on every run. Do not edit.
namespace CaddyModel.Gen

/-- healthchecks.go doActiveHealthCheck: the `if` conditions every `markUnhealthy()` call sits under -/
def activeMarkUnhealthyGuards : List (List String) := [["err!=nil"], ["h.HealthChecks.Active.ExpectStatus>0", "!caddyhttp.StatusCodeMatches(resp.StatusCode,h.HealthChecks.Active.ExpectStatus)"], ["else:h.HealthChecks.Active.ExpectStatus>0", "resp.StatusCode<200||resp.StatusCode>=300"], ["h.HealthChecks.Active.bodyRegexp!=nil", "err!=nil"], ["h.HealthChecks.Active.bodyRegexp!=nil", "!h.HealthChecks.Active.bodyRegexp.Match(bodyBytes)"]]
/-- …and every `markHealthy()` call -/
def activeMarkHealthyGuards : List (List String) := [[]]
/-- every `markUnhealthy()` is directly followed by a `return` -/
def activeMarkUnhealthyThenReturn : Bool := true
/-- where the body reader is replaced by a limited one -/
def activeBodyLimit : String := "h.HealthChecks.Active.MaxSize>0 => body=io.LimitReader(body,h.HealthChecks.Active.MaxSize)"

end CaddyModel.Gen
