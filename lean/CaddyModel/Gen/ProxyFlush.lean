-- REGENERATED from /repo by tools/extract on every run. Do not edit.
namespace CaddyModel.Gen

/-- streaming.go `(*maxLatencyWriter).Write`: lock operations and calls into the destination writer, in source order -/
def proxyMlwWriteCalls : List String := ["Lock", "defer Unlock", "dst.Write", "flush"]

/-- every `m.dst.Write` / `m.flush` of `Write` lies between `Lock` and (a deferred or later) `Unlock` -/
def proxyMlwWriteUnderLock : Bool := true

/-- streaming.go `(*maxLatencyWriter).delayedFlush`: the same for the timer goroutine -/
def proxyDelayedFlushCalls : List String := ["Lock", "defer Unlock", "flush"]

/-- the `m.flush` of `delayedFlush` lies between `Lock` and (a deferred or later) `Unlock` -/
def proxyDelayedFlushUnderLock : Bool := true

end CaddyModel.Gen
