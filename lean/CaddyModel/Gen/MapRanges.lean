-- REGENERATED from /repo by tools/extract on every run. Do not edit.
namespace CaddyModel.Gen

/-- every `range` over a (syntactically recognisable) map in caddyconfig/httpcaddyfile/*.go and modules/**/caddyfile.go:
    (file:function, ranged expression, `noappend` | `appendkey` (the body appends the range key itself to a slice) |
    `appendother` (it appends something else), the first sort call on that slice after the loop — in its own block or an enclosing one —, or `NOSORT`) -/
def caddyfileMapRanges : List (String × String × String × String) := [
  ("caddyconfig/httpcaddyfile/addresses.go:mapAddressToProtocolToServerBlocks", "addrToProtocolToKeyWithParsedKeys", "appendkey", "sort.Strings"),
  ("caddyconfig/httpcaddyfile/addresses.go:mapAddressToProtocolToServerBlocks", "protocolToKeyWithParsedKeys", "appendkey", "sort.Strings"),
  ("caddyconfig/httpcaddyfile/addresses.go:consolidateAddrMappings", "addrToProtocolToServerBlocks", "appendkey", "sort.Strings"),
  ("caddyconfig/httpcaddyfile/addresses.go:consolidateAddrMappings", "addrToProtocolToServerBlocks", "noappend", ""),
  ("caddyconfig/httpcaddyfile/addresses.go:consolidateAddrMappings", "listeners", "appendkey", "sort.Strings"),
  ("caddyconfig/httpcaddyfile/directives.go:Caddyfiles", "files", "appendkey", "sort.Strings"),
  ("caddyconfig/httpcaddyfile/directives.go:parseSegmentAsConfig", "h.matcherDefs", "noappend", ""),
  ("caddyconfig/httpcaddyfile/directives.go:hostsFromKeys", "hostMap", "appendkey", "NOSORT"),
  ("caddyconfig/httpcaddyfile/directives.go:hostsFromKeysNotHTTP", "hostMap", "appendkey", "NOSORT"),
  ("caddyconfig/httpcaddyfile/httptype.go:Setup", "options", "noappend", ""),
  ("caddyconfig/httpcaddyfile/httptype.go:buildSubroute", "mutuallyExclusiveDirs", "appendkey", "sort.Strings"),
  ("caddyconfig/httpcaddyfile/httptype.go:parseMatcherDefinitions", "tokensByMatcherName", "noappend", ""),
  ("caddyconfig/httpcaddyfile/httptype.go:encodeMatcherSet", "matchers", "noappend", ""),
  ("caddyconfig/httpcaddyfile/serveroptions.go:applyServerOptions", "servers", "noappend", ""),
  ("caddyconfig/httpcaddyfile/serveroptions.go:applyServerOptions", "servers", "noappend", ""),
  ("caddyconfig/httpcaddyfile/tlsapp.go:buildTLSApp", "loadersByName", "noappend", ""),
  ("caddyconfig/httpcaddyfile/tlsapp.go:buildTLSApp", "httpsHostsSharedWithHostlessKey", "appendkey", "slices.Sort"),
  ("caddyconfig/httpcaddyfile/tlsapp.go:buildTLSApp", "httpsHostsSharedWithHostlessKey", "appendkey", "slices.Sort"),
  ("caddyconfig/httpcaddyfile/tlsapp.go:buildTLSApp", "forcedAutomatedNames", "appendkey", "slices.Sort"),
  ("modules/caddyhttp/reverseproxy/forwardauth/caddyfile.go:parseCaddyfile", "headersToCopy", "appendkey", "sort.Strings")]

end CaddyModel.Gen
