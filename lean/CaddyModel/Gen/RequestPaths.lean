-- REGENERATED from /repo by tools/extract on every run. Do not edit.
namespace CaddyModel.Gen

/-- server.go `Server.ServeHTTP`: the fields `F` of every `r.F = origReq.F` (restored before the error routes run), in source order -/
def errorPathRestores : List String := ["Method", "RemoteAddr", "RequestURI"]

/-- server.go `Server.ServeHTTP`: number of calls `PrepareRequest(…)` -/
def serveHTTPPrepareCalls : Nat := 1

/-- reverseproxy.go `reverseProxy`: the request every `rh.Routes.Compile(next).ServeHTTP(rw, X.WithContext(ctx))` serves (X) -/
def handleResponseServes : List String := ["origReq"]

/-- forwardauth/caddyfile.go: request header fields the forward_auth wrapper pre-fills (`Headers.Request.Set`), in source order -/
def forwardAuthPrefill : List (List UInt8) := [
  [88, 45, 70, 111, 114, 119, 97, 114, 100, 101, 100, 45, 77, 101, 116, 104, 111, 100],  -- X-Forwarded-Method
  [88, 45, 70, 111, 114, 119, 97, 114, 100, 101, 100, 45, 85, 114, 105]   -- X-Forwarded-Uri
  ]

/-- fastcgi/caddyfile.go `parsePHPFastCGI`: keys of the `reverseproxy.Handler{…}` literal, and request header fields it pre-fills -/
def phpFastcgiHandlerKeys : List String := ["TransportRaw"]
def phpFastcgiPrefill : List (List UInt8) := []

end CaddyModel.Gen
