-- REGENERATED from /repo by tools/extract on every run. Do not edit.
namespace CaddyModel.Gen

/-- cmd/commandfuncs.go cmdFmt, in source order: every assignment to a variable that is passed to `caddyfile.Format`
    or holds its result (those variables renamed v0, v1, … in order of first appearance) and every os.WriteFile /
    fmt.Print* call that mentions one of them or calls Format in place -/
def cmdFmtDataFlow : List String := ["v0,err = io.ReadAll(os.Stdin)", "fmt.Print(string(caddyfile.Format(v0)))", "v0,err = os.ReadFile(configFile)", "v1 = caddyfile.Format(v0)", "os.WriteFile(configFile,v1,0o600)", "fmt.Print(string(v1))"]

/-- caddyconfig/caddyfile/adapter.go FormattingDifference, the same way (sink: bytes.Equal) -/
def formattingDifferenceDataFlow : List String := ["v1 = bytes.Replace(body,?(\"\\r\\n\"),?(\"\\n\"),-1)", "v0 = Format(v1)", "bytes.Equal(v0,v1)"]

/-- caddyconfig/caddyfile/parse.go allTokens: what it returns -/
def allTokensReturns : List String := ["Tokenize(replaceEnvVars(input),filename)"]

/-- adapter.go (Adapter).Adapt, in source order: every call of Parse / FormattingDifference and every assignment to
    its parameter `body` -/
def adaptBodyUses : List String := ["Parse(filename,body)", "FormattingDifference(filename,body)"]

end CaddyModel.Gen
