-- REGENERATED from /repo by tools/extract on every run. Do not edit.
namespace CaddyModel.Gen

/-- header names whose values `LoggableHTTPHeader` replaces by REDACTED (marshalers.go): the string literals
    listed together with "authorization" -/
def redactedHeaderNames : List String := ["authorization", "cookie", "proxy-authorization", "set-cookie"]

/-- the function that lists them folds the case of the header name (strings.ToLower / EqualFold) -/
def redactionIsCaseFolded : Bool := true

end CaddyModel.Gen
