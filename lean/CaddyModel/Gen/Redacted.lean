-- REGENERATED from /repo by tools/extract on every run. Do not edit.
namespace CaddyModel.Gen

/-- header names whose values `LoggableHTTPHeader` replaces by REDACTED (marshalers.go) -/
def redactedHeaderNames : List String := ["authorization", "cookie", "proxy-authorization", "set-cookie"]

/-- the redaction switch is keyed on `strings.ToLower(key)` -/
def redactionIsCaseFolded : Bool := true

end CaddyModel.Gen
