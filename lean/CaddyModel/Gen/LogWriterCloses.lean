-- REGENERATED from /repo by tools/extract on every run. Do not edit.
namespace CaddyModel.Gen

/-- logging.go: every call `x.Close()` / `x.Destruct()` as (enclosing function, method called), in source order -/
def logWriterCloseSites : List (String × String) := [("Destruct", "Close")]

end CaddyModel.Gen
