-- REGENERATED from /repo by tools/extract on every run. Do not edit.
namespace CaddyModel.Gen

/-- `hopHeaders` (reverseproxy.go), in source order, as bytes -/
def hopHeaders : List (List UInt8) := [
  [65, 108, 116, 45, 83, 118, 99],  -- Alt-Svc
  [67, 111, 110, 110, 101, 99, 116, 105, 111, 110],  -- Connection
  [80, 114, 111, 120, 121, 45, 67, 111, 110, 110, 101, 99, 116, 105, 111, 110],  -- Proxy-Connection
  [75, 101, 101, 112, 45, 65, 108, 105, 118, 101],  -- Keep-Alive
  [80, 114, 111, 120, 121, 45, 65, 117, 116, 104, 101, 110, 116, 105, 99, 97, 116, 101],  -- Proxy-Authenticate
  [80, 114, 111, 120, 121, 45, 65, 117, 116, 104, 111, 114, 105, 122, 97, 116, 105, 111, 110],  -- Proxy-Authorization
  [84, 101],  -- Te
  [84, 114, 97, 105, 108, 101, 114],  -- Trailer
  [84, 114, 97, 110, 115, 102, 101, 114, 45, 69, 110, 99, 111, 100, 105, 110, 103],  -- Transfer-Encoding
  [85, 112, 103, 114, 97, 100, 101]   -- Upgrade
  ]

/-- the value `App.Provision` assigns to a nil `srv.ClientIPHeaders` (app.go) -/
def defaultClientIPHeaders : List (List UInt8) := [
  [88, 45, 70, 111, 114, 119, 97, 114, 100, 101, 100, 45, 70, 111, 114]   -- X-Forwarded-For
  ]

/-- `internal.PrivateRangesCIDR()` (the `private_ranges` shortcut), in source order -/
def privateRanges : List (List UInt8) := [
  [49, 57, 50, 46, 49, 54, 56, 46, 48, 46, 48, 47, 49, 54],  -- 192.168.0.0/16
  [49, 55, 50, 46, 49, 54, 46, 48, 46, 48, 47, 49, 50],  -- 172.16.0.0/12
  [49, 48, 46, 48, 46, 48, 46, 48, 47, 56],  -- 10.0.0.0/8
  [49, 50, 55, 46, 48, 46, 48, 46, 49, 47, 56],  -- 127.0.0.1/8
  [102, 100, 48, 48, 58, 58, 47, 56],  -- fd00::/8
  [58, 58, 49]   -- ::1
  ]

/-- `prepareRequest`: source order of the hop-by-hop steps and of the call that adds X-Forwarded-* -/
def prepareRequestOrder : List String := ["removeConnectionHeaders", "hopHeadersLoop", "addForwardedHeaders"]

/-- `addForwardedHeaders`: literal keys of `req.Header.Del(…)` (error path) and `req.Header.Set(…)`, in source order -/
def forwardedDelKeys : List (List UInt8) := [
  [88, 45, 70, 111, 114, 119, 97, 114, 100, 101, 100, 45, 70, 111, 114],  -- X-Forwarded-For
  [88, 45, 70, 111, 114, 119, 97, 114, 100, 101, 100, 45, 80, 114, 111, 116, 111],  -- X-Forwarded-Proto
  [88, 45, 70, 111, 114, 119, 97, 114, 100, 101, 100, 45, 72, 111, 115, 116]   -- X-Forwarded-Host
  ]
def forwardedSetKeys : List (List UInt8) := [
  [88, 45, 70, 111, 114, 119, 97, 114, 100, 101, 100, 45, 70, 111, 114],  -- X-Forwarded-For
  [88, 45, 70, 111, 114, 119, 97, 114, 100, 101, 100, 45, 80, 114, 111, 116, 111],  -- X-Forwarded-Proto
  [88, 45, 70, 111, 114, 119, 97, 114, 100, 101, 100, 45, 72, 111, 115, 116]   -- X-Forwarded-Host
  ]

end CaddyModel.Gen
