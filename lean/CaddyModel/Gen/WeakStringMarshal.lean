-- REGENERATED from /repo by tools/extract on every run. Do not edit.
namespace CaddyModel.Gen

/-- the first result of every `return` of caddyhttp.WeakString.MarshalJSON (modules/caddyhttp/caddyhttp.go), in source order -/
def weakStringMarshalReturns : List String := ["[]byte(\"true\")", "[]byte(\"false\")", "json.Marshal(num)", "json.Marshal(string(ws))"]

end CaddyModel.Gen
