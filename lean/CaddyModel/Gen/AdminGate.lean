-- REGENERATED from /repo by tools/extract on every run. Do not edit.
namespace CaddyModel.Gen

/-- top-level statements of `adminHandler.serveHTTP` (admin.go) in order: the gates and the mux -/
def adminGateSequence : List String := ["acl", "websocket", "host", "origin", "mux"]

def adminMuxIsLastStatement : Bool := true

/-- number of `mux.ServeHTTP` call sites in admin.go -/
def adminMuxCallSites : Nat := 1

end CaddyModel.Gen
