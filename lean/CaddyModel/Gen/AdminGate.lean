-- REGENERATED from /repo by tools/extract on every run. Do not edit.
namespace CaddyModel.Gen

/-- the gates in the order `adminHandler.serveHTTP` (admin.go) reaches them, helpers of the same file inlined:
    remote ACL, websocket refusal, host check, origin check, then the mux -/
def adminGateSequence : List String := ["acl", "websocket", "host", "origin", "mux"]

def adminMuxIsLastStatement : Bool := true

/-- number of `mux.ServeHTTP` call sites in admin.go -/
def adminMuxCallSites : Nat := 1

end CaddyModel.Gen
