-- REGENERATED from /repo by tools/extract on every run. Do not edit.
namespace CaddyModel.Gen

/-- admin.go replaceLocalAdminServer / replaceRemoteAdminServer: the conditions of the returning `if` guards that
    precede the `defer` which stops the previous admin server (top-level statements, in order), and whether such a
    defer exists -/
def localGuardsBeforeStop : List String := []
def localStopsPreviousServer : Bool := true
def remoteGuardsBeforeStop : List String := ["cfg==nil"]
def remoteStopsPreviousServer : Bool := true
/-- replaceLocalAdminServer assigns `localAdminServer` only after the listener is bound and its error returned -/
def localServerAssignedAfterBind : Bool := true

/-- the route patterns registered by the admin.api modules of the tree: every `AdminRoute{Pattern: …}` composite
    literal outside admin.go, tests and verif hooks, as (file, pattern); an identifier is resolved to the string
    constant of its package -/
def moduleAdminRoutePatterns : List (String × String) := [("caddyconfig/load.go", "/adapt"), ("caddyconfig/load.go", "/load"), ("modules/caddyhttp/reverseproxy/admin.go", "/reverse_proxy/upstreams"), ("modules/caddypki/adminapi.go", "/pki/"), ("modules/metrics/adminmetrics.go", "/metrics")]

/-- the gates in the order `adminHandler.serveHTTP` (admin.go) reaches them, helpers of the same file inlined:
    remote ACL, websocket refusal, host check, origin check, then the mux -/
def adminGateSequence : List String := ["acl", "websocket", "host", "origin", "mux"]

def adminMuxIsLastStatement : Bool := true

/-- number of `mux.ServeHTTP` call sites in admin.go -/
def adminMuxCallSites : Nat := 1

end CaddyModel.Gen
