-- REGENERATED from /repo by tools/extract on every run. Do not edit.
namespace CaddyModel.Gen

/-- staticfiles.go `FileServer.ServeHTTP`: opening the sidecar and announcing its coding, in source order -/
def fileServerSidecarSteps : List String := ["open sidecar", "set Content-Encoding"]

/-- `Content-Encoding` is set once, after the sidecar has been opened -/
def fileServerSidecarHeaderAfterOpen : Bool := true

end CaddyModel.Gen
