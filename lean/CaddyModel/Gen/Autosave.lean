-- REGENERATED from /repo by tools/extract on every run. Do not edit.
namespace CaddyModel.Gen

/-- the `os.*` calls of the autosave block of `unsyncedDecodeAndRun` (caddy.go), in source order,
    with their identifier arguments -/
def autosaveOps : List String := ["MkdirAll(dir)", "WriteFile(tmpPath,cfgJSON)", "Rename(tmpPath,ConfigAutosavePath)"]

/-- the file is written only after the old config was stopped (i.e. after the swap) -/
def autosaveAfterSwap : Bool := true

end CaddyModel.Gen
