-- REGENERATED from /repo by tools/extract on every run. Do not edit.
namespace CaddyModel.Gen

/-- the `os.*` calls of the autosave part of `unsyncedDecodeAndRun` (caddy.go; helpers of the same file
    inlined), in source order -/
def autosaveOps : List String := ["MkdirAll", "WriteFile", "Rename"]

/-- some `os.WriteFile(t, …)` with `t = ConfigAutosavePath + <suffix>` is followed by `os.Rename(t, ConfigAutosavePath)` -/
def autosaveWritesTempThenRenames : Bool := true

/-- no call creates or writes `ConfigAutosavePath` itself in place -/
def autosaveNeverWritesInPlace : Bool := true

/-- the file is written only after the old config was stopped (i.e. after the swap) -/
def autosaveAfterSwap : Bool := true

end CaddyModel.Gen
