-- REGENERATED from /repo by tools/extract on every run. Do not edit.
namespace CaddyModel.Gen

/-- modules/caddyhttp: (*Server).enforcementHandler and every same-package function it statically calls (transitively):
    selector chains READ on a `*http.Request` (a call `r.Context()` would appear as `Request.Context`), sorted -/
def enforcementRequestReads : List String := ["Request.Host", "Request.TLS", "Request.TLS.ServerName"]

/-- … fields read on the `*Server` -/
def enforcementServerReads : List String := ["Server.StrictSNIHost"]

/-- … keys of context reads (`.Value(k)` calls) -/
def enforcementContextReads : List String := []

/-- … package-level variables of package caddyhttp mentioned -/
def enforcementPackageVars : List String := []

/-- … assignment targets that are fields of a request / server or package-level variables -/
def enforcementWrites : List String := ["Request.Close"]

/-- … and the functions visited -/
def enforcementFunctions : List String := [".Error", ".isASCII", ".randString", ".trace", "Server.enforcementHandler"]

/-- modules/caddyhttp/app.go: the keys of the context.WithValue calls inside the `ConnContext:` function literals
    (the per-connection values every request's context carries), how many such literals there are, and whether
    a `BaseContext:` is set anywhere in the file -/
def httpConnContextKeys : List String := ["ConnCtxKey"]
def httpConnContextLiterals : Nat := 1
def httpBaseContextSet : Bool := false

end CaddyModel.Gen
