-- REGENERATED from /repo by tools/extract on every run. Do not edit.
namespace CaddyModel.Gen

/-- modules/caddyhttp/server.go (*Server).enforcementHandler: every selector expression of its body rooted at the
    receiver or a parameter (a method call `r.Context()` would appear as `r.Context`), sorted -/
def enforcementSelectors : List String := ["next.ServeHTTP", "r.Close", "r.Host", "r.TLS", "r.TLS.ServerName", "s.StrictSNIHost"]

/-- … the ones it assigns to -/
def enforcementWrites : List String := ["r.Close"]

/-- … every free identifier of its body (packages, package-level functions / variables / types, predeclared names) -/
def enforcementFreeIdents : List String := ["Error", "fmt", "http", "isASCII", "net", "nil", "strings", "true"]

/-- … and the number of top-level statements of its body -/
def enforcementTopStmts : Nat := 2

/-- modules/caddyhttp/app.go: the keys of the context.WithValue calls inside the `ConnContext:` function literals
    (the per-connection values every request's context carries), how many such literals there are, and whether
    a `BaseContext:` is set anywhere in the file -/
def httpConnContextKeys : List String := ["ConnCtxKey"]
def httpConnContextLiterals : Nat := 1
def httpBaseContextSet : Bool := false

end CaddyModel.Gen
