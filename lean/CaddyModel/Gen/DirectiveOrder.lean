-- REGENERATED from /repo by tools/extract on every run. Do not edit.
namespace CaddyModel.Gen

/-- `defaultDirectiveOrder` (httpcaddyfile/directives.go), in source order -/
def defaultDirectiveOrder : List String := ["tracing", "map", "vars", "fs", "root", "log_append", "skip_log", "log_skip", "log_name", "header", "copy_response_headers", "request_body", "redir", "method", "rewrite", "uri", "try_files", "basicauth", "basic_auth", "forward_auth", "request_header", "encode", "push", "intercept", "templates", "invoke", "handle", "handle_path", "route", "abort", "error", "copy_response", "respond", "metrics", "reverse_proxy", "php_fastcgi", "file_server", "acme_server"]

end CaddyModel.Gen
