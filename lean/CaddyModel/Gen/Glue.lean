-- REGENERATED from /repo by tools/extract on every run. Do not edit.
namespace CaddyModel.Gen

/-- modules/caddyhttp/app.go (*App).Provision: the order in which it first calls automaticHTTPSPhase1, hasTLSClientAuth
    (the strict_sni_host default), wrapPrimaryRoute (which compiles the enforcement handler in) and
    TLSConnPolicies.Provision (which zeroes the raw verifier config Active() looks at); helpers of app.go are followed -/
def httpProvisionOrder : List String := ["automaticHTTPSPhase1", "hasTLSClientAuth", "wrapPrimaryRoute", "TLSConnPolicies.Provision"]

/-- listeners.go (*sharedQUICState).addState: number of its own return statements, and whether one of them returns
    the bare cancel function obtained from context.WithCancel (which does not unregister the tls.Config) -/
def quicAddStateReturns : Nat := 2
def quicAddStateReturnsBareCancel : Bool := false

/-- admin.go replaceRemoteAdminServer: every value assigned to a `.ClientAuth` field -/
def remoteAdminClientAuth : List String := ["tls.RequireAndVerifyClientCert"]

/-- … and every assignment to a `.publicKeys` field: `<owner> <- range <what the owner ranges over> : <value>` -/
def remoteAdminKeyAppends : List String := ["accessControl <- range cfg.Admin.Remote.AccessControl : append(accessControl.publicKeys,cert.PublicKey)"]

/-- caddyconfig/httpcaddyfile/shorthands.go placeholderShorthands(): (shorthand, full placeholder) -/
def placeholderShorthands : List (String × String) := [("{host}", "{http.request.host}"), ("{hostport}", "{http.request.hostport}"), ("{port}", "{http.request.port}"), ("{orig_method}", "{http.request.orig_method}"), ("{orig_uri}", "{http.request.orig_uri}"), ("{orig_path}", "{http.request.orig_uri.path}"), ("{orig_dir}", "{http.request.orig_uri.path.dir}"), ("{orig_file}", "{http.request.orig_uri.path.file}"), ("{orig_query}", "{http.request.orig_uri.query}"), ("{orig_?query}", "{http.request.orig_uri.prefixed_query}"), ("{method}", "{http.request.method}"), ("{uri}", "{http.request.uri}"), ("{path}", "{http.request.uri.path}"), ("{dir}", "{http.request.uri.path.dir}"), ("{file}", "{http.request.uri.path.file}"), ("{query}", "{http.request.uri.query}"), ("{?query}", "{http.request.uri.prefixed_query}"), ("{remote}", "{http.request.remote}"), ("{remote_host}", "{http.request.remote.host}"), ("{remote_port}", "{http.request.remote.port}"), ("{scheme}", "{http.request.scheme}"), ("{uuid}", "{http.request.uuid}"), ("{tls_cipher}", "{http.request.tls.cipher_suite}"), ("{tls_version}", "{http.request.tls.version}"), ("{tls_client_fingerprint}", "{http.request.tls.client.fingerprint}"), ("{tls_client_issuer}", "{http.request.tls.client.issuer}"), ("{tls_client_serial}", "{http.request.tls.client.serial}"), ("{tls_client_subject}", "{http.request.tls.client.subject}"), ("{tls_client_certificate_pem}", "{http.request.tls.client.certificate_pem}"), ("{tls_client_certificate_der_base64}", "{http.request.tls.client.certificate_der_base64}"), ("{upstream_hostport}", "{http.reverse_proxy.upstream.hostport}"), ("{client_ip}", "{http.vars.client_ip}")]

/-- modules/caddyhttp/app.go (*App).Stop: every `caddy.ListenerUsage(args)` call: `args | enclosing range loops` -/
def listenerUsageCalls : List String := ["addr.Network, addr.JoinHostPort(0) | server in app.Servers; na in server.addresses; addr in na.Expand()"]

/-- modules/caddyhttp/app.go, server.go: every `BaseContext` / `ConnContext` of an http.Server (composite-literal
    field or assignment) with what the function returns: the parents of the request contexts -/
def httpServerContextFields : List String := ["app.go ConnContext: func returning context.WithValue(ctx,ConnCtxKey,c)", "server.go server.ConnContext = func returning f(baseConnContextFunc(ctx,c),c)", "server.go server.ConnContext = f"]

/-- modules/caddyhttp/app.go (*App).start: every `if` whose body calls `.Listen(` (outermost first), followed by
    the definitions inside start of the identifiers its condition names -/
def httpListenGuards : List String := ["if h1ok||h2ok&&useTLS||h2cok", "h1ok := present protocolsUnique[\"h1\"]", "h2ok := present protocolsUnique[\"h2\"]", "useTLS := len(srv.TLSConnPolicies)>0&&int(listenAddr.StartPort+portOffset)!=app.httpPort()", "h2cok := present protocolsUnique[\"h2c\"]"]

/-- modules/caddyhttp/app.go (*App).Validate: how the key of the map of claimed listen addresses is made, looked up
    and stored: `what | enclosing loops` in source order -/
def httpRepeatedListenKey : List String := ["addr := caddy.JoinNetworkAddress(listenAddr.Network,listenAddr.Host,strconv.FormatUint(uint64(listenAddr.StartPort+i),10)) | range app.Servers; range srv.Listen; for i<listenAddr.PortRangeSize()", "lookup lnAddrs[addr] | range app.Servers; range srv.Listen; for i<listenAddr.PortRangeSize()", "store lnAddrs[addr] | range app.Servers; range srv.Listen; for i<listenAddr.PortRangeSize()"]

/-- every name passed as a string literal to RegisterDirective / RegisterHandlerDirective in non-test files of the module (sorted) -/
def registeredDirectives : List String := ["abort", "acme_server", "basic_auth", "basicauth", "bind", "copy_response", "copy_response_headers", "encode", "error", "file_server", "forward_auth", "fs", "handle", "handle_errors", "handle_path", "header", "intercept", "invoke", "log", "log_append", "log_name", "log_skip", "map", "method", "metrics", "php_fastcgi", "push", "redir", "request_body", "request_header", "respond", "reverse_proxy", "rewrite", "root", "route", "skip_log", "templates", "tls", "tracing", "try_files", "uri", "vars"]

/-- … and to RegisterGlobalOption (sorted) -/
def registeredGlobalOptions : List String := ["acme_ca", "acme_ca_root", "acme_dns", "acme_eab", "admin", "auto_https", "cert_issuer", "cert_lifetime", "debug", "default_bind", "default_sni", "dns", "ech", "email", "events", "fallback_sni", "filesystem", "grace_period", "http_port", "https_port", "key_type", "local_certs", "log", "metrics", "ocsp_interval", "ocsp_stapling", "on_demand_tls", "order", "persist_config", "pki", "preferred_chains", "renew_interval", "servers", "shutdown_delay", "skip_install_trust", "storage", "storage_check", "storage_clean_interval"]

/-- modules/caddyhttp: every iteration of a map in code reachable from (*App).automaticHTTPSPhase1 (the function,
    its function literals and, transitively, the functions / methods of the package it calls statically), by go/types:
    (kind, origin, effects, calls). kind: `sortedkeys` = slices.Sorted(maps.Keys(m)) (ranged or not), `map` = `range m`
    with m of map type, `mapseq` = maps.Keys/Values/All(m) not directly inside slices.Sorted, `seq` = a range over any
    other iterator function. origin: the map by data flow (parameters traced to the identifiers passed by the callers):
    `field T.F : type`, `var : type` (a local variable — its name is not part of the fact), `param : type`, `expr : type`.
    For `map` / `mapseq` / `seq` ranges: effects = what the loop body writes outside itself: `keyed` (m2[k] = … / delete(m2, k)
    with k the range key), `append>sinks` (x = append(x, …) to an outer slice, with every other use of x in the function:
    `arg:callee` or `use`), `assign`, `return`, `break`, `goto`; calls = the statically resolved callees in the body
    (`dynamic` for a call through a function value or interface). `[("LOAD-FAILED", …)]` when the package does not type-check. -/
def autoHTTPSRanges : List (String × String × List String × List String) := [
  ("sortedkeys", "field App.Servers : map[string]*Server", [], []),
  ("map", "var : map[string]struct{}", ["append>arg:(*caddytls.TLS).RegisterServerNames"], []),
  ("map", "var : map[string]struct{}", ["keyed"], ["(*caddytls.TLS).HasCertificateForSubject", "(*zap.Logger).Info", "(*zap.Logger).Warn", "certmagic.SubjectQualifiesForCert", "slices.Contains", "strings.Contains", "strings.Count", "strings.Trim", "zap.String"]),
  ("map", "var : map[string]struct{}", ["keyed"], ["(*caddyhttp.App).httpsPort"]),
  ("sortedkeys", "var : map[string]struct{}", [], []),
  ("sortedkeys", "var : map[string][]caddy.NetworkAddress", [], []),
  ("sortedkeys", "var : map[string][]string", [], []),
  ("sortedkeys", "var : map[string][]Route", [], []),
  ("sortedkeys", "var : map[string]struct{}", [], []),
  ("map", "field ServerLogConfig.LoggerNames : map[string]StringArray", ["keyed"], []),
  ("map", "var : map[string]any", ["append>use", "return"], ["fmt.Errorf"])]

/-- modules/caddyhttp/fileserver/staticfiles.go: the literals of `var defaultIndexNames` -/
def defaultIndexNames : List String := ["index.html", "index.txt"]

/-- FileServer.Provision (staticfiles.go) and MatchFile.Provision (matcher.go): every top-level
    `if x.F == "" / nil { x.F = v }` in source order: (type, field, v) -/
def fileserverProvisionDefaults : List (String × String × String) := [("FileServer", "FileSystem", "\"{http.vars.fs}\""), ("FileServer", "Root", "\"{http.vars.root}\""), ("FileServer", "IndexNames", "defaultIndexNames"), ("MatchFile", "Root", "\"{http.vars.root}\""), ("MatchFile", "FileSystem", "\"{http.vars.fs}\""), ("MatchFile", "TryFiles", "[{http.request.uri.path}]")]

/-- modules/caddyhttp/fileserver: every `caddyhttp.SetVar(ctx, key, …)` (a write into the request's variable
    table, shared by all handlers of the request): (file, function, key) -/
def fileserverVarWrites : List (String × String × String) := [("matcher.go", "Match", "caddyhttp.MatcherErrorVarKey")]

/-- FileServer.ServeHTTP: every call of fileHidden / fs.Stat / openFile / serveBrowse / getEtagFromFile /
    notFound / redirect / http.ServeContent in source order, with the file-name argument -/
def serveHTTPCalls : List (String × String) := [("fs.Stat", "filename"), ("fsrv.notFound", ""), ("fileHidden", "indexPath"), ("fs.Stat", "indexPath"), ("fileHidden", "filename"), ("fsrv.serveBrowse", "filename"), ("fsrv.notFound", ""), ("fileHidden", "filename"), ("fsrv.notFound", ""), ("redirect", ""), ("redirect", ""), ("fileHidden", "compressedFilename"), ("fs.Stat", "compressedFilename"), ("fsrv.openFile", "compressedFilename"), ("fsrv.getEtagFromFile", "compressedFilename"), ("fsrv.openFile", "filename"), ("fsrv.notFound", ""), ("fsrv.getEtagFromFile", "filename"), ("http.ServeContent", "")]

/-- every call of a Replacer's ReplaceAll / ReplaceKnown / ReplaceOrErr / ReplaceFunc in the consumers C18 models
    (map.go, headers.go, rewrite.go, vars.go, staticresp.go), in source order: (file, function, method, first argument) -/
def replacerCallSites : List (String × String × String × String) := [
  ("map.go", "ServeHTTP", "ReplaceAll", "h.Source"),
  ("map.go", "ServeHTTP", "ReplaceAll", "outputStr"),
  ("map.go", "ServeHTTP", "ReplaceAll", "h.Defaults[destIdx]"),
  ("headers.go", "ApplyTo", "ReplaceKnown", "fieldName"),
  ("headers.go", "ApplyTo", "ReplaceKnown", "fieldName"),
  ("headers.go", "ApplyTo", "ReplaceKnown", "v"),
  ("headers.go", "ApplyTo", "ReplaceKnown", "fieldName"),
  ("headers.go", "ApplyTo", "ReplaceKnown", "vals[i]"),
  ("headers.go", "ApplyTo", "ReplaceKnown", "fieldName"),
  ("headers.go", "ApplyTo", "ReplaceKnown", "fieldName"),
  ("headers.go", "ApplyTo", "ReplaceKnown", "r.Search"),
  ("headers.go", "ApplyTo", "ReplaceKnown", "r.Replace"),
  ("headers.go", "ApplyTo", "ReplaceKnown", "r.Search"),
  ("headers.go", "ApplyTo", "ReplaceKnown", "r.Replace"),
  ("rewrite.go", "Rewrite", "ReplaceAll", "rewr.Method"),
  ("rewrite.go", "Rewrite", "ReplaceAll", "path"),
  ("rewrite.go", "Rewrite", "ReplaceAll", "frag"),
  ("rewrite.go", "Rewrite", "ReplaceAll", "rewr.StripPathPrefix"),
  ("rewrite.go", "Rewrite", "ReplaceAll", "rewr.StripPathSuffix"),
  ("rewrite.go", "buildQueryString", "ReplaceFunc", "comp"),
  ("rewrite.go", "do", "ReplaceAll", "rep.Find"),
  ("rewrite.go", "do", "ReplaceAll", "rep.Replace"),
  ("rewrite.go", "do", "ReplaceAll", "rep.Replace"),
  ("rewrite.go", "do", "ReplaceAll", "renameParam.Key"),
  ("rewrite.go", "do", "ReplaceAll", "renameParam.Val"),
  ("rewrite.go", "do", "ReplaceAll", "setParam.Key"),
  ("rewrite.go", "do", "ReplaceAll", "setParam.Val"),
  ("rewrite.go", "do", "ReplaceAll", "addParam.Key"),
  ("rewrite.go", "do", "ReplaceAll", "addParam.Val"),
  ("rewrite.go", "do", "ReplaceAll", "replaceParam.Key"),
  ("rewrite.go", "do", "ReplaceKnown", "replaceParam.Search"),
  ("rewrite.go", "do", "ReplaceKnown", "replaceParam.Replace"),
  ("rewrite.go", "do", "ReplaceAll", "deleteParam"),
  ("vars.go", "ServeHTTP", "ReplaceAll", "k"),
  ("vars.go", "ServeHTTP", "ReplaceAll", "valStr"),
  ("vars.go", "MatchWithError", "ReplaceAll", "v"),
  ("staticresp.go", "ServeHTTP", "ReplaceAll", "field"),
  ("staticresp.go", "ServeHTTP", "ReplaceAll", "vals[i]"),
  ("staticresp.go", "ServeHTTP", "ReplaceKnown", "s.Body"),
  ("staticresp.go", "ServeHTTP", "ReplaceAll", "codeStr")
]

/-- modules/caddyhttp: every store into a host matcher — an element of a MatchHost / *MatchHost value or the whole
    slice behind a *MatchHost, identified by go/types — in code reachable from (*App).automaticHTTPSPhase1 (the function,
    its function literals and, transitively, the functions / methods of the package it calls statically; MatchHost's own
    methods excepted); `["LOAD-FAILED"]` when the package does not type-check -/
def autoHTTPSHostMatcherStores : List String := []

/-- every Replacer.Replace* call of autohttps.go, matchers.go, caddyauth/basicauth.go and app.go (modules/caddyhttp),
    in source order: (file, function, method, first argument) -/
def provisionReplacerCallSites : List (String × String × String × String) := [
  ("autohttps.go", "automaticHTTPSPhase1", "ReplaceOrErr", "elem MatchHost"),
  ("matchers.go", "MatchWithError", "ReplaceAll", "host"),
  ("matchers.go", "MatchWithError", "ReplaceAll", "matchPattern"),
  ("matchers.go", "MatchWithError", "ReplaceAll", "param"),
  ("matchers.go", "MatchWithError", "ReplaceAll", "v"),
  ("matchers.go", "matchHeaders", "ReplaceAll", "allowedFieldVal"),
  ("basicauth.go", "Provision", "ReplaceAll", "acct.Username"),
  ("basicauth.go", "Provision", "ReplaceAll", "acct.Password"),
  ("app.go", "Provision", "ReplaceOrErr", "srv.Listen[i]")
]

end CaddyModel.Gen
