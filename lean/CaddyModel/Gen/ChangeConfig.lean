-- REGENERATED from /repo by tools/extract on every run. Do not edit.
namespace CaddyModel.Gen

/-- what `changeConfig` (caddy.go) returns between computing the new whole document and running it -/
def changeConfigReturnsBeforeRun : List String := ["APIError{…}", "errSameConfig", "APIError{…}"]

/-- `return nil` statements of `changeConfig` above its `unsyncedDecodeAndRun` call -/
def changeConfigNilReturnsBeforeRun : Nat := 0

/-- calls of `unsyncedDecodeAndRun` in `changeConfig` -/
def changeConfigRunCalls : Nat := 1

end CaddyModel.Gen
