-- REGENERATED from /repo by tools/extract on every run. Do not edit.
namespace CaddyModel.Gen

/-- every sort call in caddyconfig/** and modules/**/caddyfile.go: (file:function, sort function, what is sorted,
    `reads: v,w,…` = the variables the comparator reads that are neither its parameters nor its locals — captured
    variables of a closure and package-level variables, collected through every function of the same package it
    calls statically, sorted; empty for the plain sorts, which take no comparator) -/
def adapterSortCalls : List (String × String × String × String) := [
  ("caddyconfig/httpcaddyfile/addresses.go:mapAddressToProtocolToServerBlocks", "sort.Strings", "addrs", ""),
  ("caddyconfig/httpcaddyfile/addresses.go:mapAddressToProtocolToServerBlocks", "sort.Strings", "prots", ""),
  ("caddyconfig/httpcaddyfile/addresses.go:consolidateAddrMappings", "sort.Strings", "addrs", ""),
  ("caddyconfig/httpcaddyfile/addresses.go:consolidateAddrMappings", "sort.Strings", "prots", ""),
  ("caddyconfig/httpcaddyfile/addresses.go:consolidateAddrMappings", "sort.Strings", "addresses", ""),
  ("caddyconfig/httpcaddyfile/addresses.go:consolidateAddrMappings", "sort.Strings", "prots", ""),
  ("caddyconfig/httpcaddyfile/directives.go:Caddyfiles", "sort.Strings", "filesSlice", ""),
  ("caddyconfig/httpcaddyfile/directives.go:sortRoutes", "sort.SliceStable", "routes", "reads: dirPositions,routes"),
  ("caddyconfig/httpcaddyfile/httptype.go:Setup", "sort.Strings", "defaultLog.Exclude", ""),
  ("caddyconfig/httpcaddyfile/httptype.go:evaluateGlobalOptionsBlock", "sort.Slice", "serverOpts", "reads: serverOpts"),
  ("caddyconfig/httpcaddyfile/httptype.go:serversFromPairings", "sort.SliceStable", "p.serverBlocks", "reads: p"),
  ("caddyconfig/httpcaddyfile/httptype.go:serversFromPairings", "slices.Sort", "hosts", ""),
  ("caddyconfig/httpcaddyfile/httptype.go:serversFromPairings", "sort.SliceStable", "errorSubrouteVals", "reads: errorSubrouteVals"),
  ("caddyconfig/httpcaddyfile/httptype.go:serversFromPairings", "slices.Sort", "srv.Logs.SkipHosts", ""),
  ("caddyconfig/httpcaddyfile/httptype.go:consolidateConnPolicies", "sort.SliceStable", "cps", "reads: cps"),
  ("caddyconfig/httpcaddyfile/httptype.go:buildSubroute", "sort.Strings", "keys", ""),
  ("caddyconfig/httpcaddyfile/tlsapp.go:buildTLSApp", "sort.Strings", "hostsNotHTTP", ""),
  ("caddyconfig/httpcaddyfile/tlsapp.go:buildTLSApp", "slices.Sort", "al", ""),
  ("caddyconfig/httpcaddyfile/tlsapp.go:buildTLSApp", "slices.Sort", "internalAP.SubjectsRaw", ""),
  ("caddyconfig/httpcaddyfile/tlsapp.go:consolidateAutomationPolicies", "sort.SliceStable", "aps", "reads: aps"),
  ("modules/caddyhttp/reverseproxy/forwardauth/caddyfile.go:parseCaddyfile", "sort.Strings", "sortedHeadersToCopy", "")]

/-- every read of the environment, the clock, randomness or a directory listing, every maps.Keys / maps.Values call and
    every `go` statement in the same files: (file:function, what) -/
def adapterOutsideInputs : List (String × String) := [
  ("caddyconfig/caddyfile/parse.go:replaceEnvVars", "os.LookupEnv"),
  ("caddyconfig/caddyfile/parse.go:doImport", "filepath.Glob")]

end CaddyModel.Gen
