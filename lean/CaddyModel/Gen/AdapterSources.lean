-- REGENERATED from /repo by tools/extract on every run. Do not edit.
namespace CaddyModel.Gen

/-- every sort call in caddyconfig/** and modules/**/caddyfile.go: (file:function, sort function, what is sorted,
    the expressions a comparator literal returns, joined by ` | `; empty for the plain sorts) -/
def adapterSortCalls : List (String × String × String × String) := [
  ("caddyconfig/httpcaddyfile/addresses.go:mapAddressToProtocolToServerBlocks", "sort.Strings", "addrs", ""),
  ("caddyconfig/httpcaddyfile/addresses.go:mapAddressToProtocolToServerBlocks", "sort.Strings", "prots", ""),
  ("caddyconfig/httpcaddyfile/addresses.go:consolidateAddrMappings", "sort.Strings", "addrs", ""),
  ("caddyconfig/httpcaddyfile/addresses.go:consolidateAddrMappings", "sort.Strings", "prots", ""),
  ("caddyconfig/httpcaddyfile/addresses.go:consolidateAddrMappings", "sort.Strings", "addresses", ""),
  ("caddyconfig/httpcaddyfile/addresses.go:consolidateAddrMappings", "sort.Strings", "prots", ""),
  ("caddyconfig/httpcaddyfile/directives.go:Caddyfiles", "sort.Strings", "filesSlice", ""),
  ("caddyconfig/httpcaddyfile/directives.go:sortRoutes", "sort.SliceStable", "routes", "dirPositions[iDir]<dirPositions[jDir] | false | false | iPathLen<jPathLen | iPathLen>jPathLen | len(iRoute.MatcherSetsRaw)>0&&len(jRoute.MatcherSetsRaw)==0 | !sortByPath | sortByPath"),
  ("caddyconfig/httpcaddyfile/httptype.go:Setup", "sort.Strings", "defaultLog.Exclude", ""),
  ("caddyconfig/httpcaddyfile/httptype.go:evaluateGlobalOptionsBlock", "sort.Slice", "serverOpts", "len(serverOpts[i].ListenerAddress)>len(serverOpts[j].ListenerAddress)"),
  ("caddyconfig/httpcaddyfile/httptype.go:serversFromPairings", "sort.SliceStable", "p.serverBlocks", "false | true | jWildcardHost&&!iWildcardHost | len(iLongestPath)>len(jLongestPath) | specificity(iLongestHost)>specificity(jLongestHost)"),
  ("caddyconfig/httpcaddyfile/httptype.go:serversFromPairings", "slices.Sort", "hosts", ""),
  ("caddyconfig/httpcaddyfile/httptype.go:serversFromPairings", "sort.SliceStable", "errorSubrouteVals", "false | false | true"),
  ("caddyconfig/httpcaddyfile/httptype.go:serversFromPairings", "slices.Sort", "srv.Logs.SkipHosts", ""),
  ("caddyconfig/httpcaddyfile/httptype.go:consolidateConnPolicies", "sort.SliceStable", "cps", "cps[j].MatchersRaw==nil&&cps[i].MatchersRaw!=nil"),
  ("caddyconfig/httpcaddyfile/httptype.go:buildSubroute", "sort.Strings", "keys", ""),
  ("caddyconfig/httpcaddyfile/tlsapp.go:buildTLSApp", "sort.Strings", "hostsNotHTTP", ""),
  ("caddyconfig/httpcaddyfile/tlsapp.go:buildTLSApp", "slices.Sort", "al", ""),
  ("caddyconfig/httpcaddyfile/tlsapp.go:buildTLSApp", "slices.Sort", "internalAP.SubjectsRaw", ""),
  ("caddyconfig/httpcaddyfile/tlsapp.go:consolidateAutomationPolicies", "sort.SliceStable", "aps", "true | false | len(aps[i].SubjectsRaw)>len(aps[j].SubjectsRaw)"),
  ("modules/caddyhttp/reverseproxy/forwardauth/caddyfile.go:parseCaddyfile", "sort.Strings", "sortedHeadersToCopy", "")]

/-- every read of the environment, the clock, randomness or a directory listing, every maps.Keys / maps.Values call and
    every `go` statement in the same files: (file:function, what) -/
def adapterOutsideInputs : List (String × String) := [
  ("caddyconfig/caddyfile/parse.go:replaceEnvVars", "os.LookupEnv"),
  ("caddyconfig/caddyfile/parse.go:doImport", "filepath.Glob")]

end CaddyModel.Gen
