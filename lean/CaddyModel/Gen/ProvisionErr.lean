-- REGENERATED from /repo by tools/extract on every run. Do not edit.
namespace CaddyModel.Gen

/-- caddy.go:provisionContext — one entry per return statement of the function itself that reports an error:
    `covered` when the function-level variable `err` is known to be non-nil there (it is the value returned, or the
    statement sits under an `if err != nil` on that variable; identifiers resolved by scope, so a shadowing
    `if _, err := …` is NOT covered), else a description. The deferred rollback only runs when that variable is non-nil. -/
def provisionErrorReturns : List String := ["covered", "covered", "covered", "covered"]

/-- every `err` the deferred rollback closure reads is that function-level variable -/
def provisionRollbackReadsFunctionErr : Bool := true

/-- the function and its function-level `err` were found -/
def provisionErrFactsFound : Bool := true

end CaddyModel.Gen
