-- REGENERATED from /repo by tools/extract on every run. Do not edit.
namespace CaddyModel.Gen

/-- every zap field constructor call under modules/caddyhttp/... one of whose arguments is, or is
    computed from, an http.Request / http.Header / http.Response / cookies (typed scan, go/types):
    (package, function, field key, kind). kind = `wrapped` (LoggableHTTPRequest/LoggableHTTPHeader with credentials
    off by default), `wrappedcred:<expr>` (the ShouldLogCredentials expression), `headerget:<name>` (a single
    named header value), `raw:<type>` (anything else). -/
def logSites : List (String × String × String × String) := [
  ("caddyhttp", "ServeHTTP", "request", "wrappedcred:server-flag"),
  ("caddyhttp", "logRequest", "resp_headers", "wrappedcred:server-flag"),
  ("fastcgi", "RoundTrip", "request", "wrapped-value"),
  ("fastcgi", "RoundTrip", "request", "wrapped-value"),
  ("push", "ServeHTTP", "push_headers", "wrappedcred:server-flag"),
  ("reverseproxy", "reverseProxy", "headers", "wrappedcred:server-flag"),
  ("reverseproxy", "reverseProxy", "request", "wrappedcred:server-flag"),
  ("rewrite", "ServeHTTP", "request", "wrapped")
]

/-- the same scan over every OTHER package of the module (core, cmd, caddytls, caddypki, logging, …): sites that log
    request/response/header material outside the HTTP server's access, error and reverse-proxy debug logs -/
def logSitesElsewhere : List (String × String × String × String) := [
  ("caddy", "ServeHTTP", "headers", "raw:net/http.Header")
]

/-- the typed scan loaded and type-checked every package without error -/
def logSitesScanComplete : Bool := true

end CaddyModel.Gen
