-- REGENERATED from /repo by tools/extract on every run. Do not edit.
namespace CaddyModel.Gen

/-- every zap field constructor call under modules/caddyhttp/... one of whose arguments is, or is
    computed from, an http.Request / http.Header / http.Response / cookies (typed scan, go/types):
    (package, function, field key, kind). kind = `wrapped` (LoggableHTTPRequest/LoggableHTTPHeader with credentials
    off by default), `wrappedcred:<expr>` (the ShouldLogCredentials expression), `headerget:<name>` (a single
    named header value), `viavar:<kind>:<helper>` (a local variable assigned from header material, one data-flow step),
    `raw:<type>` (anything else). -/
def logSites : List (String × String × String × String) := [
  ("caddyhttp", "ServeHTTP", "request", "wrappedcred:server-flag"),
  ("caddyhttp", "logRequest", "resp_headers", "wrappedcred:server-flag"),
  ("fastcgi", "RoundTrip", "request", "wrapped-value"),
  ("fastcgi", "RoundTrip", "request", "wrapped-value"),
  ("push", "ServeHTTP", "push_headers", "wrappedcred:server-flag"),
  ("reverseproxy", "handleUpgradeResponse", "backend_upgrade", "viavar:raw:net/http.Header:call:upgradeType"),
  ("reverseproxy", "handleUpgradeResponse", "backend_upgrade", "viavar:raw:net/http.Header:call:upgradeType"),
  ("reverseproxy", "handleUpgradeResponse", "requested_upgrade", "viavar:raw:net/http.Header:call:upgradeType"),
  ("reverseproxy", "reverseProxy", "headers", "wrappedcred:server-flag"),
  ("reverseproxy", "reverseProxy", "request", "wrappedcred:server-flag"),
  ("rewrite", "ServeHTTP", "request", "wrapped")
]

/-- the same scan over every OTHER package of the module (core, cmd, caddytls, caddypki, logging, …): sites that log
    request/response/header material outside the HTTP server's access, error and reverse-proxy debug logs -/
def logSitesElsewhere : List (String × String × String × String) := [
  ("caddy", "ServeHTTP", "headers", "raw:net/http.Header")
]

/-- census of EVERY zap field constructor call under modules/caddyhttp/...: calls = classified (at least one entry in
    logSites) + plain (arguments of string / number / bool / duration / time / error / []string type) + opaque (listed below) -/
def logFieldCalls : Nat := 176
def logFieldClassified : Nat := 11
def logFieldPlain : Nat := 153

/-- fields whose argument is an object / interface / marshaler the typed scan cannot see into: (package, function, key, constructor:type) -/
def logOpaqueFields : List (String × String × String × String) := [
  ("caddyhttp", "automaticHTTPSPhase1", "http", "Reflect:*caddyhttp.App"),
  ("caddyhttp", "automaticHTTPSPhase1", "tls", "Reflect:*caddytls.TLS"),
  ("caddyhttp", "logTrace", "module", "Any:caddyhttp.MiddlewareHandler"),
  ("fastcgi", "RoundTrip", "env", "Object:fastcgi.loggableEnv"),
  ("fastcgi", "RoundTrip", "env", "Object:fastcgi.loggableEnv"),
  ("logging", "ServeHTTP", "h.Key", "Any:any"),
  ("reverseproxy", "NewTransport", "header", "Any:*proxyproto.Header"),
  ("reverseproxy", "NewTransport", "header", "Any:*proxyproto.Header"),
  ("reverseproxy", "activeHealthChecker", "error", "Any:interface{}"),
  ("reverseproxy", "countFailure", "error", "Any:interface{}"),
  ("reverseproxy", "doActiveHealthCheckForAllHosts", "error", "Any:interface{}"),
  ("reverseproxy", "init", "error", "Any:interface{}")
]

/-- the typed scan loaded and type-checked every package without error -/
def logSitesScanComplete : Bool := true

end CaddyModel.Gen
