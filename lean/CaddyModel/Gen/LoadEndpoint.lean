-- REGENERATED from /repo by tools/extract on every run. Do not edit.
namespace CaddyModel.Gen

/-- `forceReload := r.Header.Get(<header>) <op> <value>` in adminLoad.handleLoad (caddyconfig/load.go) -/
def loadForceHeader : String := "Cache-Control"
def loadForceCompare : String := "=="
def loadForceValue : String := "must-revalidate"
def loadForceDefs : Nat := 1

/-- the `caddy.Load` calls of handleLoad and the arguments of all of them, in order -/
def loadCalls : Nat := 1
def loadCallArgs : List String := ["body", "forceReload"]

/-- what `body` is assigned from in handleLoad, in source order -/
def loadBodyAssigns : List String := ["buf.Bytes()", "result"]

/-- the arguments of the adaptByContentType call(s) of handleLoad -/
def loadAdaptArgs : List String := ["ctHeader", "body"]

end CaddyModel.Gen
