-- REGENERATED from /repo by tools/extract on every run. Do not edit.
namespace CaddyModel.Gen

/-- usagepool.go: per method of UsagePool, in source order, every lock operation on the pool (`up`) or an entry
    (`upv`) and every yield point `verifYield(up, N, …)` (the hook of build tag verif): `Lock:up`, `RUnlock:upv`,
    `TryRLock:upv`, `yield:N`; deferred calls are prefixed `defer:`. -/
def usagePoolSync : List (String × List String) := [
  ("LoadOrNew", ["Lock:up", "Unlock:up", "yield:1", "RLock:upv", "RUnlock:upv", "Lock:upv", "Unlock:up", "yield:2", "Lock:up", "Unlock:up", "Unlock:upv"]),
  ("LoadOrStore", ["Lock:up", "Unlock:up", "yield:3", "RLock:upv", "RUnlock:upv", "yield:7", "Unlock:up"]),
  ("Range", ["RLock:up", "defer:RUnlock:up", "TryRLock:upv", "RUnlock:upv", "RUnlock:upv"]),
  ("Delete", ["yield:8", "Lock:up", "Unlock:up", "Unlock:up", "yield:4", "RLock:upv", "RUnlock:upv", "Unlock:up"]),
  ("References", ["RLock:up", "defer:RUnlock:up"])
]

/-- the same events along every control-flow path of each method (if/else and early returns followed, a loop body
    taken zero times or once) -/
def usagePoolPaths : List (String × List (List String)) := [
  ("LoadOrNew", [["Lock:up", "Unlock:up", "yield:1", "RLock:upv", "RUnlock:upv"],
     ["Lock:up", "Lock:upv", "Unlock:up", "Unlock:upv"],
     ["Lock:up", "Lock:upv", "Unlock:up", "yield:2", "Lock:up", "Unlock:up", "Unlock:upv"]]),
  ("LoadOrStore", [["Lock:up", "Unlock:up", "yield:3", "RLock:upv", "RUnlock:upv", "yield:7"],
     ["Lock:up", "Unlock:up", "yield:3", "RLock:upv", "RUnlock:upv"],
     ["Lock:up", "Unlock:up"]]),
  ("Range", [["RLock:up", "defer:RUnlock:up"],
     ["RLock:up", "defer:RUnlock:up", "TryRLock:upv"],
     ["RLock:up", "defer:RUnlock:up", "TryRLock:upv", "RUnlock:upv"]]),
  ("Delete", [["yield:8", "Lock:up", "Unlock:up"],
     ["yield:8", "Lock:up", "Unlock:up", "yield:4", "RLock:upv", "RUnlock:upv"],
     ["yield:8", "Lock:up", "Unlock:up"]]),
  ("References", [["RLock:up", "defer:RUnlock:up"],
     ["RLock:up", "defer:RUnlock:up"]])
]

end CaddyModel.Gen
