-- REGENERATED from /repo by tools/extract on every run. Do not edit.
namespace CaddyModel.Gen

/-- every call of LoadOrNew / LoadOrStore / Delete / References / Range on one of the tree's usage pools
    (listenerPool, writers, hosts, secretsLogPool, databasePool) outside usagepool.go, tests and verif hooks:
    (file, enclosing function, pool, method, guards) — guards outermost first: `if c` / `else c` = enclosing if,
    `c => return|continue|break` = an earlier early exit of an enclosing block, `defer`, `func` = inside a deferred
    call / function literal -/
def usagePoolClients : List (String × String × String × String × List String) := [
  ("listen.go", "listenReusable", "listenerPool", "LoadOrNew", ["if datagram"]),
  ("listen.go", "listenReusable", "listenerPool", "LoadOrNew", ["datagram => return"]),
  ("listen.go", "fakeCloseListener.Close", "listenerPool", "Delete", ["if atomic.CompareAndSwapInt32(&fcl.closed,0,1)"]),
  ("listen.go", "fakeClosePacketConn.Close", "listenerPool", "Delete", ["if atomic.CompareAndSwapInt32(&fcpc.closed,0,1)"]),
  ("listen_unix.go", "listenReusable", "listenerPool", "LoadOrStore", ["if err==nil"]),
  ("listen_unix.go", "listenReusable", "listenerPool", "Delete", ["if datagram", "if !fd", "if ok", "if err!=nil"]),
  ("listen_unix.go", "listenReusable", "listenerPool", "Delete", ["else datagram", "if !fd", "if ok", "if err!=nil"]),
  ("listen_unix.go", "deleteListener.Close", "listenerPool", "Delete", []),
  ("listen_unix.go", "deletePacketConn.Close", "listenerPool", "Delete", []),
  ("listeners.go", "NetworkAddress.ListenQUIC", "listenerPool", "LoadOrNew", []),
  ("listeners.go", "ListenerUsage", "listenerPool", "References", []),
  ("listeners.go", "fakeCloseQuicListener.Close", "listenerPool", "Delete", ["if atomic.CompareAndSwapInt32(&fcql.closed,0,1)"]),
  ("logging.go", "Logging.closeLogs", "writers", "Delete", []),
  ("logging.go", "Logging.openWriter", "writers", "LoadOrNew", []),
  ("modules/caddyhttp/reverseproxy/admin.go", "adminUpstreams.handleUpstreams", "hosts", "Range", ["r.Method!=http.MethodGet => return"]),
  ("modules/caddyhttp/reverseproxy/hosts.go", "Upstream.fillHost", "hosts", "LoadOrStore", []),
  ("modules/caddyhttp/reverseproxy/reverseproxy.go", "Handler.Cleanup", "hosts", "Delete", ["upstream.Host==nil => continue"]),
  ("modules/caddyhttp/reverseproxy/reverseproxy.go", "Handler.proxyLoopIteration", "hosts", "Delete", ["if h.DynamicUpstreams!=nil", "else err!=nil", "defer", "func"]),
  ("modules/caddypki/acmeserver/acmeserver.go", "Handler.Cleanup", "databasePool", "Delete", ["!ash.databaseOpened => return"]),
  ("modules/caddypki/acmeserver/acmeserver.go", "Handler.openDatabase", "databasePool", "LoadOrNew", []),
  ("modules/caddytls/connpolicy.go", "ConnectionPolicy.buildStandardTLSConfig", "secretsLogPool", "LoadOrNew", ["err!=nil => return", "(p.ProtocolMin!=\"\"&&p.ProtocolMax!=\"\")&&p.ProtocolMin>p.ProtocolMax => return", "if p.InsecureSecretsLog!=\"\"", "err!=nil => return", "err!=nil => return"]),
  ("modules/caddytls/connpolicy.go", "ConnectionPolicy.buildStandardTLSConfig", "secretsLogPool", "Delete", ["err!=nil => return", "(p.ProtocolMin!=\"\"&&p.ProtocolMax!=\"\")&&p.ProtocolMin>p.ProtocolMax => return", "if p.InsecureSecretsLog!=\"\"", "err!=nil => return", "err!=nil => return", "err!=nil => return", "func"])
]

/-- reverseproxy.go Handler.proxyLoopIteration, the per-request client of the hosts pool: (the slice the
    provisioning loop ranges over, the statements of that loop's body, the slice the deferred release loop ranges
    over, the argument of hosts.Delete there, every assignment to that slice or to one of its elements) -/
def dynamicUpstreamPairing : String × List String × String × String × List String :=
  ("dUpstreams", ["h.provisionUpstream(dUp)"], "dUpstreams", "upstream.String()", ["dUpstreams,err:=h.DynamicUpstreams.GetUpstreams(r)"])

end CaddyModel.Gen
