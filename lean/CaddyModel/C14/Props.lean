/-
C14 — property theorems (helper lemmas are in Lemmas.lean, counter-examples for the
operation orders the tree used to have in Witness.lean).

Statement: state that caddy persists for use after a restart is recoverable wherever a crash
or storage error interrupts it: with persistence enabled, the autosave file is at every
instant a complete copy of some successfully loaded configuration, and of the latest pushed
one once its load has returned.  The local CA's root certificate and key, once a start-up has
succeeded, are reloaded unchanged by every later start-up (as is the intermediate until it is
renewed), and after an interruption during their creation the next start-up succeeds with a
mutually consistent certificate chain and keys.

Quantifier: every point at which the process can die or a storage write can fail (before or
after taking effect), any number of restarts, all load histories with persistence on/off.
In the theorems: `Event.fault : Option Fault` ranges over every operation index and all four
modes; `List Event` / `List AEvent` are arbitrary histories; nothing is bounded.
-/
import CaddyModel.C14.Lemmas
import CaddyModel.C14.FileStoreLemmas
import CaddyModel.C14.Resume
import CaddyModel.C14.Witness
import CaddyModel.Gen.CAWrites
import CaddyModel.Gen.Autosave
import CaddyModel.Gen.Resume
import CaddyModel.Gen.ChangeConfig
import CaddyModel.Gen.LoadEndpoint
import CaddyModel.Gen.CAStorage
import CaddyModel.C14.Endpoint
import CaddyModel.C14.TwoStores

namespace CaddyModel.C14

/-! ## local CA -/

/-- **every interruption leaves a recoverable store (one step).**  Whatever the fault — any
    operation index, process death or reported error, before or after the effect — a
    start-up of the current code maps a store satisfying `InvAt` to one satisfying it. -/
theorem interrupted_startup_keeps_invariant (e : Event) (d : Disk) (t : Nat)
    (h : InvAt t d.store) : InvAt e.cfg.now (e.after codeOrder d).store := by
  have := wp_sound e.fault (startup .keyFirst e.cfg) _ (boot d) (wp_startup_inv e.cfg d.store d.fresh h.any)
  exact this.store_all (fun _ _ _ h => h.1) (fun _ _ h => h) (fun _ h => h)

/-- **every history of interrupted start-ups leaves a recoverable store.** -/
theorem reachable_invariant : ∀ (evs : List Event) (t : Nat) (d : Disk), InvAt t d.store →
    InvAt (lastTime t evs) (runHist codeOrder evs d).store
  | [], _, _, h => h
  | e :: es, t, d, h =>
    reachable_invariant es e.cfg.now (e.after codeOrder d) (interrupted_startup_keeps_invariant e d t h)

/-- **recovery.**  After ANY history of start-ups on an initially empty storage, each of them
    interrupted at any storage operation in any of the four ways (or not at all), the next
    uninterrupted start-up succeeds, the chain and keys it holds are mutually consistent, and
    they are exactly what the storage then contains.  (No assumption about the clock.) -/
theorem recovery (evs : List Event) (c : Cfg) :
    ∃ m y, (Event.mk c none).run codeOrder (runHist codeOrder evs Disk.empty) = .ok m y ∧
      m.Consistent ∧ Complete y.store m := by
  have hinv : InvAt c.now (runHist codeOrder evs Disk.empty).store :=
    (reachable_invariant evs 0 Disk.empty (InvAt.empty 0)).any
  have := wpn_sound (startup .keyFirst c) _ (boot (runHist codeOrder evs Disk.empty))
    (wpn_startup c _ (runHist codeOrder evs Disk.empty).fresh hinv)
  unfold Event.run
  show ∃ m y, exec none (startup .keyFirst c) (boot (runHist codeOrder evs Disk.empty)) = .ok m y ∧ _
  cases hr : exec none (startup .keyFirst c) (boot (runHist codeOrder evs Disk.empty)) with
  | ok m y => rw [hr] at this; exact ⟨m, y, rfl, this.2.1, this.1⟩
  | err e y => rw [hr] at this; exact this.elim
  | crash y => rw [hr] at this; exact this.elim

/-- **recovery, the instance the property names**: the creation on an empty storage is
    interrupted at the `k`-th operation in mode `mode`; the next start-up succeeds with a
    consistent chain — for every `k`, every mode, every intermediate lifetime. -/
theorem recovery_after_interrupted_creation (k : Nat) (mode : Mode) (life life' : Nat) :
    ∃ m y, (Event.mk ⟨2, life'⟩ none).run codeOrder
        ((Event.mk ⟨1, life⟩ (some ⟨k, mode⟩)).after codeOrder Disk.empty) = .ok m y ∧
      m.Consistent ∧ Complete y.store m :=
  recovery [⟨⟨1, life⟩, some ⟨k, mode⟩⟩] ⟨2, life'⟩

/-- **Provision alone already ends consistent.**  After any interrupted history the pair that
    `Provision` returns — before `Start` runs — is an intermediate certificate with ITS OWN key,
    signed by the root in hand (a foreign key left by an interrupted renewal is detected and the
    pair replaced; before that check this failed:
    `Witness.provision_alone_after_interrupted_renewal_mismatched_old_code`). -/
theorem provision_alone_consistent (evs : List Event) (c : Cfg) :
    ∃ m y, exec none (provision codeOrder c) (boot (runHist codeOrder evs Disk.empty)) = .ok m y ∧ m.Consistent := by
  have hinv : InvAt c.now (runHist codeOrder evs Disk.empty).store :=
    (reachable_invariant evs 0 Disk.empty (InvAt.empty 0)).any
  have hw : wpn noErr (provision .keyFirst c) (fun m _ _ => m.Consistent)
      (runHist codeOrder evs Disk.empty).store (runHist codeOrder evs Disk.empty).fresh := by
    unfold provision
    rw [wpn_bind]
    refine wpn_mono ?_ _ _ _ (phaseN_root c.now c.now _ _ hinv)
    intro root s1 fr1 hroot
    rw [wpn_bind]
    refine wpn_mono ?_ _ _ _ (phaseN_inter c.now c.now c.life root s1 fr1 hroot)
    intro inter s2 _ hprov
    exact ⟨hprov.1.2.2.2.1, hprov.1.2.2.2.2, hprov.2.2.2.1, hprov.2.2.2.2⟩
  have := wpn_sound (provision .keyFirst c) _ (boot (runHist codeOrder evs Disk.empty)) hw
  show ∃ m y, exec none (provision .keyFirst c) (boot (runHist codeOrder evs Disk.empty)) = .ok m y ∧ _
  cases hr : exec none (provision .keyFirst c) (boot (runHist codeOrder evs Disk.empty)) with
  | ok m y => rw [hr] at this; exact ⟨m, y, rfl, this⟩
  | err e y => rw [hr] at this; exact this.elim
  | crash y => rw [hr] at this; exact this.elim

/-- **root_stable.**  Once a start-up has succeeded (even one during which a fault was
    injected), every later history of start-ups — interrupted anywhere, any number of
    restarts — leaves the stored root certificate and key unchanged, and every later start-up
    that returns uses that same root certificate. -/
theorem root_stable (evs0 : List Event) (e0 : Event)
    (m0 : Mem) (y0 : Sys) (h0 : e0.run codeOrder (runHist codeOrder evs0 Disk.empty) = .ok m0 y0)
    (evs : List Event) :
    (runHist codeOrder evs (e0.after codeOrder (runHist codeOrder evs0 Disk.empty))).store .rootCrt = some m0.root.crt ∧
    (runHist codeOrder evs (e0.after codeOrder (runHist codeOrder evs0 Disk.empty))).store .rootKey = some m0.root.key ∧
    ∀ (e : Event) (m : Mem) (y : Sys),
      e.run codeOrder (runHist codeOrder evs (e0.after codeOrder (runHist codeOrder evs0 Disk.empty))) = .ok m y →
      m.root.crt = m0.root.crt := by
  have hinv : InvAt e0.cfg.now (runHist codeOrder evs0 Disk.empty).store :=
    (reachable_invariant evs0 0 Disk.empty (InvAt.empty 0)).any
  have hs := wp_sound e0.fault (startup .keyFirst e0.cfg) _ (boot (runHist codeOrder evs0 Disk.empty))
    (wp_startup_inv e0.cfg _ (runHist codeOrder evs0 Disk.empty).fresh hinv)
  have hheld : RootHeld e0.cfg.now m0 y0.store := by
    unfold Event.run at h0
    change exec e0.fault (startup .keyFirst e0.cfg) _ = _ at h0
    rw [h0] at hs
    exact hs
  have hafter : (e0.after codeOrder (runHist codeOrder evs0 Disk.empty)).store = y0.store := by
    simp [Event.after, h0, Res.sys]
  have hfr := root_frozen codeOrder evs (e0.after codeOrder (runHist codeOrder evs0 Disk.empty)) m0.root.crt
    (by rw [hafter]; exact hheld.2.1)
  refine ⟨hfr.1, by rw [hfr.2, hafter]; exact hheld.2.2, ?_⟩
  intro e m y hr
  have hs2 := wp_sound e.fault (startup codeOrder e.cfg) _
    (boot (runHist codeOrder evs (e0.after codeOrder (runHist codeOrder evs0 Disk.empty))))
    (wp_startup_root_frozen codeOrder e.cfg _ _ m0.root.crt hfr.1)
  unfold Event.run at hr
  rw [hr] at hs2
  exact hs2.2

/-- the interruption that bricked the CA under the old write order (`Witness.f10`) is harmless
    under the current one -/
example : ∃ m y, (Event.mk ⟨2, 100⟩ none).run codeOrder (runHist codeOrder [f10] Disk.empty) = .ok m y ∧
    m.Consistent ∧ Complete y.store m :=
  recovery [f10] ⟨2, 100⟩

/-- a stored intermediate certificate with its own key next to it, outside its renewal window
    at every later start-up, stays stored, with that key -/
theorem inter_frozen (i r ra : Nat) : ∀ (evs : List Event) (d : Disk), d.store .intCrt = some (.cert i r ra) →
    d.store .intKey = some (.key i) → (∀ e ∈ evs, e.cfg.now < ra) →
    (runHist codeOrder evs d).store .intCrt = some (.cert i r ra) ∧
    (runHist codeOrder evs d).store .intKey = d.store .intKey
  | [], _, h, _, _ => ⟨h, rfl⟩
  | e :: es, d, h, hown, hnd => by
    have hs := wp_sound e.fault (startup codeOrder e.cfg) _ (boot d)
      (wp_startup_inter_frozen codeOrder e.cfg d.store d.fresh i r ra h hown (hnd e (by simp)))
    have h1 : (e.after codeOrder d).store .intCrt = some (.cert i r ra) ∧
        (e.after codeOrder d).store .intKey = d.store .intKey :=
      hs.store_all (fun _ _ _ h => h.1) (fun _ _ h => h) (fun _ h => h)
    have ih := inter_frozen i r ra es (e.after codeOrder d) h1.1 (h1.2.trans hown)
      (fun e' he' => hnd e' (by simp [he']))
    exact ⟨ih.1, ih.2.trans h1.2⟩

/-- **intermediate_stable_until_renewal.**  After an uninterrupted start-up has succeeded,
    every later history of start-ups (interrupted anywhere) that happen before the
    intermediate's renewal window opens leaves the stored intermediate certificate and key
    unchanged, and every such start-up that returns uses that same intermediate and key. -/
theorem intermediate_stable_until_renewal (evs0 : List Event) (c0 : Cfg) (m0 : Mem) (y0 : Sys)
    (h0 : (Event.mk c0 none).run codeOrder (runHist codeOrder evs0 Disk.empty) = .ok m0 y0)
    (evs : List Event) (hnd : ∀ e ∈ evs, e.cfg.now < m0.inter.renewAt) :
    (runHist codeOrder evs ((Event.mk c0 none).after codeOrder (runHist codeOrder evs0 Disk.empty))).store .intCrt
        = some m0.inter.crt ∧
    (runHist codeOrder evs ((Event.mk c0 none).after codeOrder (runHist codeOrder evs0 Disk.empty))).store .intKey
        = some m0.inter.key ∧
    ∀ (e : Event) (m : Mem) (y : Sys), e.cfg.now < m0.inter.renewAt →
      e.run codeOrder (runHist codeOrder evs ((Event.mk c0 none).after codeOrder (runHist codeOrder evs0 Disk.empty)))
        = .ok m y →
      m.inter = m0.inter := by
  obtain ⟨m, y, hr, hcons, hcomp⟩ := recovery evs0 c0
  rw [h0] at hr
  cases hr
  have hafter : ((Event.mk c0 none).after codeOrder (runHist codeOrder evs0 Disk.empty)).store = y0.store := by
    simp [Event.after, h0, Res.sys]
  have hic : ((Event.mk c0 none).after codeOrder (runHist codeOrder evs0 Disk.empty)).store .intCrt
      = some (.cert m0.inter.pub m0.inter.signer m0.inter.renewAt) := by rw [hafter]; exact hcomp.2.2.1
  have hik : ((Event.mk c0 none).after codeOrder (runHist codeOrder evs0 Disk.empty)).store .intKey
      = some (.key m0.inter.pub) := by
    rw [hafter, hcomp.2.2.2, Pair.key, hcons.2.2.2]
  have hfr := inter_frozen _ _ _ evs _ hic hik hnd
  refine ⟨hfr.1, by rw [hfr.2, hafter]; exact hcomp.2.2.2, ?_⟩
  intro e m y hlt hr
  have hs2 := wp_sound e.fault (startup codeOrder e.cfg) _
    (boot (runHist codeOrder evs ((Event.mk c0 none).after codeOrder (runHist codeOrder evs0 Disk.empty))))
    (wp_startup_inter_frozen codeOrder e.cfg _ _ _ _ _ hfr.1 (hfr.2.trans hik) hlt)
  unfold Event.run at hr
  rw [hr] at hs2
  obtain ⟨⟨_, h2⟩, h3, h4⟩ := hs2
  have hk : some m.inter.key = some m0.inter.key := by
    rw [← h4, h2]
    exact hfr.2.trans (by rw [hafter]; exact hcomp.2.2.2)
  simp only [Pair.crt, Blob.cert.injEq] at h3
  simp only [Pair.key, Option.some.injEq, Blob.key.injEq] at hk
  cases hm : m.inter
  cases hm0' : m0.inter
  simp_all

/-! ### renewal at run time (the 10-minute maintenance pass of a running process)

A running process renews with ITS IN-MEMORY certificates, which are not re-read from storage.
A renewal whose certificate write reports an error after taking effect is only logged, so memory
and storage can disagree, and a later pass interrupted between its two writes leaves a stored
certificate that is NOT due next to a foreign key.  Since `loadOrGenIntermediate` compares the
loaded key with the loaded certificate this is harmless: the invariant `InvAt` admits any key
next to an intermediate certificate, every pass keeps it under every fault, and the next
start-up replaces the pair.  Before that check the statement was false
(`Witness.recovery_with_runtime_renewal_old_code_fails`, reproduced on the real code then). -/

def WInv (t : Nat) (w : World) : Prop :=
  InvAt t w.disk.store ∧ ∀ m life, w.proc = some (m, life) → RootHeld t m w.disk.store

theorem Res.Holds.mem_ok {Q : Mem → Store → Nat → Prop} {E : Store → Nat → Prop} {C : Store → Prop}
    {r : Res Mem} {m : Mem} (h : r.Holds Q E C) (hm : r.mem? = some m) : Q m r.sys.store r.sys.fresh := by
  cases r with
  | ok a y => simp only [Res.mem?, Option.some.injEq] at hm; subst hm; exact h
  | err e y => cases hm
  | crash y => cases hm

/-- **a maintenance pass interrupted in any way keeps the store recoverable**, whatever the
    process holds in memory as its intermediate -/
theorem tick_keeps_invariant (now : Nat) (f : Option Fault) (life : Nat) (m : Mem) (d : Disk)
    (h : RootHeld now m d.store) :
    (tickRun codeOrder now f life m d).Holds (fun m' s' _ => RootHeld now m' s') (fun s' _ => InvAt now s') (InvAt now) :=
  wp_sound f (renew .keyFirst ⟨now, life⟩ m) _ (boot d) (phase_renew' ⟨now, life⟩ m d.store d.fresh h)

theorem WInv.step (st : Step) (w : World) (t : Nat) (h : WInv t w) : WInv st.now (w.step codeOrder st) := by
  cases st with
  | start e =>
    have hh := wp_sound e.fault (startup .keyFirst e.cfg) _ (boot w.disk)
      (wp_startup_inv e.cfg w.disk.store w.disk.fresh h.1.any)
    refine ⟨hh.store_all (fun _ _ _ h => h.1) (fun _ _ h => h) (fun _ h => h), ?_⟩
    intro m life hp
    simp only [World.step, Option.map_eq_some_iff, Prod.mk.injEq] at hp
    obtain ⟨m', hm', rfl, _⟩ := hp
    exact hh.mem_ok hm'
  | tick n f =>
    simp only [World.step]
    cases hp : w.proc with
    | none => exact ⟨h.1.any, fun m life hp' => by rw [hp] at hp'; cases hp'⟩
    | some ml =>
      obtain ⟨m, life⟩ := ml
      have hheld : RootHeld n m w.disk.store := ⟨(h.2 m life hp).1.any, (h.2 m life hp).2⟩
      have hh := tick_keeps_invariant n f life m w.disk hheld
      refine ⟨hh.store_all (fun _ _ _ h => h.1) (fun _ _ h => h) (fun _ h => h), ?_⟩
      intro m' life' hp'
      simp only [Option.map_eq_some_iff, Prod.mk.injEq] at hp'
      obtain ⟨m'', hm'', rfl, _⟩ := hp'
      exact hh.mem_ok hm''

/-- **every history of interrupted start-ups AND interrupted maintenance passes leaves a
    recoverable store** -/
theorem reachable_invariant_with_ticks : ∀ (sts : List Step) (t : Nat) (w : World), WInv t w →
    WInv (lastStepTime t sts) (runSteps codeOrder sts w)
  | [], _, _, h => h
  | st :: sts, t, w, h => reachable_invariant_with_ticks sts st.now _ (h.step st w t)

/-- **recovery with renewal at run time.**  After any history of start-ups and maintenance
    passes of the processes they leave running, each interrupted at any storage operation in
    any of the four ways, the next uninterrupted start-up succeeds with a consistent chain that
    is exactly what the storage then contains. -/
theorem recovery_with_runtime_renewal (sts : List Step) (c : Cfg) :
    ∃ m y, (Event.mk c none).run codeOrder (runSteps codeOrder sts World.empty).disk = .ok m y ∧
      m.Consistent ∧ Complete y.store m := by
  have hw : WInv 0 World.empty := ⟨InvAt.empty 0, fun m life hp => by cases hp⟩
  have hinv : InvAt c.now (runSteps codeOrder sts World.empty).disk.store :=
    (reachable_invariant_with_ticks sts 0 World.empty hw).1.any
  have := wpn_sound (startup .keyFirst c) _ (boot (runSteps codeOrder sts World.empty).disk)
    (wpn_startup c _ (runSteps codeOrder sts World.empty).disk.fresh hinv)
  show ∃ m y, exec none (startup .keyFirst c) (boot (runSteps codeOrder sts World.empty).disk) = .ok m y ∧ _
  cases hr : exec none (startup .keyFirst c) (boot (runSteps codeOrder sts World.empty).disk) with
  | ok m y => rw [hr] at this; exact ⟨m, y, rfl, this.2.1, this.1⟩
  | err e y => rw [hr] at this; exact this.elim
  | crash y => rw [hr] at this; exact this.elim

/-- the history that defeated the code before the pair check (`Witness.runtimeWitness`: a
    certificate write that reports an error after taking effect, then a pass killed between its
    two writes) leaves a NOT-due certificate next to a foreign key … -/
example : (runSteps codeOrder runtimeWitness World.empty).disk.store .intCrt = some (.cert 3 0 102) ∧
    (runSteps codeOrder runtimeWitness World.empty).disk.store .intKey = some (.key 4) := by decide

/-- … and is an instance of the theorem -/
example : ∃ m y, (Event.mk ⟨4, 100⟩ none).run codeOrder (runSteps codeOrder runtimeWitness World.empty).disk = .ok m y ∧
    m.Consistent ∧ Complete y.store m :=
  recovery_with_runtime_renewal runtimeWitness ⟨4, 100⟩

/-! ### the CA on certmagic.FileStorage (the default storage): no atomicity assumed

So far a `Store` was one operation that took effect or not.  `FileStorage.Store` is six file
operations (FileStore.lean).  The theorems below quantify over a fault at ANY ONE OF THOSE FILE
OPERATIONS — process killed, or the call reports an error; before its effect, after its effect,
or (a write) after any number of bytes — in every start-up of an arbitrary history. -/

/-- **FileStorage.Store is atomic per key under every single fault.**  Whichever file operation
    is hit and however, afterwards every key file still holds a whole value, `Load` shows the
    storage as it was or with exactly the new value under the key, and if `Store` returned nil it
    shows the new value.  (Temp files — empty, torn or whole — may be left behind; they are in
    the directory, not under any key.) -/
theorem fileStore_atomic (ff : Option FFault) (i n : Nat) (d : Dir) (k : Key) (b : Blob) (hw : KeysWhole d) :
    KeysWhole (runDOps ff (fileStoreOps n k b) i d).dir ∧
    (view (runDOps ff (fileStoreOps n k b) i d).dir = view d ∨
     view (runDOps ff (fileStoreOps n k b) i d).dir = (view d).set k b) ∧
    ((runDOps ff (fileStoreOps n k b) i d).status = .done →
      view (runDOps ff (fileStoreOps n k b) i d).dir = (view d).set k b) := by
  have h := fileStore_keys ff i n d k b
  refine ⟨?_, ?_, fun hd => view_of_keys_set (h.2 hd)⟩
  · rcases h.1 with h0 | h1
    · exact keysWhole_of_keys_eq h0 hw
    · exact keysWhole_of_keys_set h1 hw
  · rcases h.1 with h0 | h1
    · exact Or.inl (view_of_keys_eq h0)
    · exact Or.inr (view_of_keys_set h1)

theorem FRes.Holds.view_all {Q : α → Store → Nat → Prop} {E : Store → Nat → Prop} {C : Store → Prop}
    {P : Store → Prop} {r : FRes α} (h : r.Holds Q E C)
    (hQ : ∀ a s fr, Q a s fr → P s) (hE : ∀ s fr, E s fr → P s) (hC : ∀ s, C s → P s) :
    P (view r.sys.dir) ∧ KeysWhole r.sys.dir := by
  cases r with
  | ok a y => exact ⟨hQ _ _ _ h.1, h.2⟩
  | err e y => exact ⟨hE _ _ h.1, h.2⟩
  | crash y => exact ⟨hC _ h.1, h.2⟩

/-- a start-up through FileStorage, interrupted at any file operation in any way, keeps the
    directory recoverable -/
theorem fs_interrupted_startup_keeps_invariant (e : FEvent) (d : FDisk) (t : Nat)
    (h : InvAt t (view d.dir)) (hw : KeysWhole d.dir) :
    InvAt e.cfg.now (view (e.after codeOrder d).dir) ∧ KeysWhole (e.after codeOrder d).dir := by
  have := wp_sound_fs e.fault (startup .keyFirst e.cfg) _ (bootFS d) hw
    (wp_startup_inv e.cfg (view d.dir) d.fresh h.any)
  exact this.view_all (fun _ _ _ h => h.1) (fun _ _ h => h) (fun _ h => h)

theorem fs_reachable_invariant : ∀ (evs : List FEvent) (t : Nat) (d : FDisk), InvAt t (view d.dir) → KeysWhole d.dir →
    InvAt 0 (view (runFSHist codeOrder evs d).dir) ∧ KeysWhole (runFSHist codeOrder evs d).dir
  | [], _, _, h, hw => ⟨h.any, hw⟩
  | e :: es, t, d, h, hw =>
    fs_reachable_invariant es e.cfg.now (e.after codeOrder d)
      (fs_interrupted_startup_keeps_invariant e d t h hw).1 (fs_interrupted_startup_keeps_invariant e d t h hw).2

/-- **recovery on FileStorage: after any fault of any kind at any write, the CA comes back.**
    After ANY history of start-ups on an initially empty directory, each with at most one fault
    at one file operation — kill or reported error, before the effect, after the effect, or a
    write torn after any number of bytes; at the temp-file creation, chmod, write, fsync, close,
    rename or at a read — the next uninterrupted start-up succeeds, the chain and keys it holds are
    mutually consistent (it can sign leaves that verify), they are exactly what `Load` then shows,
    and no key file is torn. -/
theorem recovery_on_file_storage (evs : List FEvent) (c : Cfg) :
    ∃ m y, (FEvent.mk c none).run codeOrder (runFSHist codeOrder evs FDisk.empty) = .ok m y ∧
      m.Consistent ∧ Complete (view y.dir) m ∧ KeysWhole y.dir := by
  have hi := fs_reachable_invariant evs 0 FDisk.empty (by
    have : view FDisk.empty.dir = Store.empty := by funext k; rfl
    rw [this]; exact InvAt.empty 0) keysWhole_empty
  have := wpn_sound_fs (startup .keyFirst c) _ (bootFS (runFSHist codeOrder evs FDisk.empty)) hi.2
    (wpn_startup c _ (runFSHist codeOrder evs FDisk.empty).fresh hi.1.any)
  show ∃ m y, execFS none (startup .keyFirst c) (bootFS (runFSHist codeOrder evs FDisk.empty)) = .ok m y ∧ _
  cases hr : execFS none (startup .keyFirst c) (bootFS (runFSHist codeOrder evs FDisk.empty)) with
  | ok m y => rw [hr] at this; exact ⟨m, y, rfl, this.1.2.1, this.1.1, this.2⟩
  | err e y => rw [hr] at this; exact this.elim
  | crash y => rw [hr] at this; exact this.elim

/-- **root stability on FileStorage.**  A root certificate that `Load` shows stays what `Load`
    shows, with the same root key next to it, through any further history of start-ups with a
    fault of any kind at any file operation -/
theorem fs_root_frozen : ∀ (evs : List FEvent) (d : FDisk) (b : Blob), KeysWhole d.dir → view d.dir .rootCrt = some b →
    view (runFSHist codeOrder evs d).dir .rootCrt = some b ∧
    view (runFSHist codeOrder evs d).dir .rootKey = view d.dir .rootKey ∧ KeysWhole (runFSHist codeOrder evs d).dir
  | [], _, _, hw, h => ⟨h, rfl, hw⟩
  | e :: es, d, b, hw, h => by
    have hs := wp_sound_fs e.fault (startup codeOrder e.cfg) _ (bootFS d) hw
      (wp_startup_root_frozen codeOrder e.cfg (view d.dir) d.fresh b h)
    have h1 := hs.view_all (P := fun s => s .rootCrt = some b ∧ s .rootKey = view d.dir .rootKey)
      (fun _ _ _ h => h.1) (fun _ _ h => h) (fun _ h => h)
    have ih := fs_root_frozen es (e.after codeOrder d) b h1.2 h1.1.1
    exact ⟨ih.1, ih.2.1.trans h1.1.2, ih.2.2⟩

/-- the instance the lead's wording names: ONE fault of any kind at any file operation of the
    creation, then a restart -/
theorem recovery_after_any_single_file_fault (idx : Nat) (mode : FMode) (life life' : Nat) :
    ∃ m y, (FEvent.mk ⟨2, life'⟩ none).run codeOrder
        ((FEvent.mk ⟨1, life⟩ (some ⟨idx, mode⟩)).after codeOrder FDisk.empty) = .ok m y ∧
      m.Consistent ∧ Complete (view y.dir) m ∧ KeysWhole y.dir :=
  recovery_on_file_storage [⟨⟨1, life⟩, some ⟨idx, mode⟩⟩] ⟨2, life'⟩

/-- the creation through FileStorage performs exactly these file operations (the sequence strace
    shows for the real FileStorage) -/
example : ((FEvent.mk ⟨1, 100⟩ none).run codeOrder FDisk.empty).sys.log =
    [.read .rootCrt,
     .creatTemp 0, .chmod 0, .write 0 (.key 0), .sync 0, .close 0, .rename 0 .rootKey,
     .creatTemp 1, .chmod 1, .write 1 (.cert 0 0 (1 + rootLife)), .sync 1, .close 1, .rename 1 .rootCrt,
     .read .intCrt,
     .creatTemp 2, .chmod 2, .write 2 (.key 1), .sync 2, .close 2, .rename 2 .intKey,
     .creatTemp 3, .chmod 3, .write 3 (.cert 1 0 101), .sync 3, .close 3, .rename 3 .intCrt] := by decide

/-- the write of the root certificate (operation 10) is torn after 7 bytes and the process dies:
    a torn temp file is left, no key file is affected, `Load` shows the key and no certificate -/
example : ((FEvent.mk ⟨1, 100⟩ (some ⟨10, .killTorn 7⟩)).after codeOrder FDisk.empty).dir.tmps 1
      = some (.part (.cert 0 0 (1 + rootLife)) 7) ∧
    view ((FEvent.mk ⟨1, 100⟩ (some ⟨10, .killTorn 7⟩)).after codeOrder FDisk.empty).dir .rootCrt = none ∧
    view ((FEvent.mk ⟨1, 100⟩ (some ⟨10, .killTorn 7⟩)).after codeOrder FDisk.empty).dir .rootKey = some (.key 0) := by
  decide

/-- the rename of the root certificate (operation 13) reports an error although it took effect:
    the start-up fails, `Load` shows the complete root (the abstract mode "fail after effect") -/
example : view ((FEvent.mk ⟨1, 100⟩ (some ⟨13, .failAfter⟩)).after codeOrder FDisk.empty).dir .rootCrt
      = some (.cert 0 0 (1 + rootLife)) := by decide

/-! ### non-vacuity (kernel-evaluated) -/

/-- the start-up of the current code on an empty storage performs exactly this operation
    sequence (the sequence the harness observes on the real code) -/
example : ((Event.mk ⟨1, 100⟩ none).run codeOrder Disk.empty).sys.log =
    [.load .rootCrt, .store .rootKey (.key 0), .store .rootCrt (.cert 0 0 (1 + rootLife)),
     .load .intCrt, .store .intKey (.key 1), .store .intCrt (.cert 1 0 101)] := by decide

/-- a creation killed right after the root key was written (k = 2, crash after effect): the
    store has a key and no certificate … -/
example : ((Event.mk ⟨1, 100⟩ (some ⟨2, .crashAfter⟩)).after codeOrder Disk.empty).store .rootKey = some (.key 0) ∧
    ((Event.mk ⟨1, 100⟩ (some ⟨2, .crashAfter⟩)).after codeOrder Disk.empty).store .rootCrt = none := by decide

/-- … and the next start-up generates a fresh pair and a chain under it -/
example : ((Event.mk ⟨2, 100⟩ none).run codeOrder
      ((Event.mk ⟨1, 100⟩ (some ⟨2, .crashAfter⟩)).after codeOrder Disk.empty)).sys.store .rootCrt
    = some (.cert 1 1 (2 + rootLife)) := by decide

/-- an interrupted RENEWAL (intermediate lifetime 0, start-up 2 dies after writing the new
    intermediate key): certificate 2 is stored next to key 3 — the foreign key `InvAt` allows;
    `Provision` of start-up 3 detects it, generates pair 4 and ends consistent -/
example : (runHist codeOrder [⟨⟨1, 0⟩, none⟩, ⟨⟨2, 0⟩, some ⟨7, .crashAfter⟩⟩] Disk.empty).store .intCrt = some (.cert 2 0 1) ∧
    (runHist codeOrder [⟨⟨1, 0⟩, none⟩, ⟨⟨2, 0⟩, some ⟨7, .crashAfter⟩⟩] Disk.empty).store .intKey = some (.key 3) := by decide

example : ((Event.mk ⟨3, 50⟩ none).run codeOrder
      (runHist codeOrder [⟨⟨1, 0⟩, none⟩, ⟨⟨2, 0⟩, some ⟨7, .crashAfter⟩⟩] Disk.empty)).sys.store .intCrt
    = some (.cert 4 0 53) := by decide


/-- hypotheses of root_stable / intermediate_stable_until_renewal: a start-up that succeeds,
    later start-ups before the renewal window (101) opens -/
example : ((Event.mk ⟨1, 100⟩ none).run codeOrder Disk.empty).sys.store .intCrt = some (.cert 1 0 101) ∧
    (∀ e ∈ [Event.mk ⟨5, 7⟩ (some ⟨3, .failAfter⟩), Event.mk ⟨9, 7⟩ none], e.cfg.now < 101) := by decide

/-! ## config autosave -/

theorem seenHist_append (sty : Style) : ∀ (evs₁ evs₂ : List AEvent) (a : AState) (x : FS),
    x ∈ seenHist sty evs₁ a → x ∈ seenHist sty (evs₁ ++ evs₂) a
  | [], evs₂, a, x, h => by
    simp [seenHist] at h
    subst h
    cases evs₂ with
    | nil => simp [seenHist]
    | cons e es =>
      simp only [List.nil_append, seenHist, List.mem_append]
      left
      cases e with
      | load l ft =>
        simp only [AEvent.seen]
        unfold loadStep
        split
        · simp
        · split
          · simp
          · split
            · have : a.fs ∈ (runOps ft (autosaveOps sty l.cfg) 0 a.fs).seen := by
                cases hops : autosaveOps sty l.cfg with
                | nil => simp [runOps]
                | cons op rest =>
                  unfold runOps
                  split
                  · split <;> simp
                  all_goals simp
              split <;> exact this
            · simp
      | restart => simp [AEvent.seen]
  | e :: es, evs₂, a, x, h => by
    simp only [seenHist, List.cons_append, List.mem_append] at h ⊢
    rcases h with h | h
    · exact Or.inl h
    · exact Or.inr (seenHist_append sty es evs₂ _ x h)

theorem seenHist_good : ∀ (evs : List AEvent) (a : AState) (A : List Bytes), Good A a.fs →
    ∀ x ∈ seenHist codeStyle evs a, Good (A ++ acceptedIn codeStyle evs a) x
  | [], a, A, h, x, hx => by
    simp [seenHist] at hx
    subst hx
    simpa [acceptedIn] using h
  | .restart :: es, a, A, h, x, hx => by
    simp only [seenHist, AEvent.seen, List.mem_append, List.mem_singleton] at hx
    simp only [acceptedIn]
    rcases hx with hx | hx
    · subst hx; exact h.mono (fun c hc => by simp [hc])
    · exact seenHist_good es _ A (by simpa [AEvent.step] using h) x hx
  | .load l ft :: es, a, A, h, x, hx => by
    simp only [seenHist, AEvent.seen, List.mem_append] at hx
    have hl := loadStep_good l ft a A h
    have hacc : A ++ acceptedIn codeStyle (.load l ft :: es) a
        = (A ++ acceptedBy l a) ++ acceptedIn codeStyle es ((AEvent.load l ft).step codeStyle a) := by
      simp only [acceptedIn, acceptedBy]
      split <;> simp
    rw [hacc]
    rcases hx with hx | hx
    · exact (hl.1 x hx).mono (fun c hc => List.mem_append_left _ hc)
    · exact seenHist_good es _ (A ++ acceptedBy l a) hl.2 x hx

/-- **autosave_always_complete.**  For every load history — persistence on or off, rejected
    and unchanged loads, restarts, and in every load a kill, a failing operation or a write torn
    after any number of bytes, at any operation — the autosave file is at EVERY instant either
    absent (nothing was ever saved) or byte for byte a config whose load had been accepted
    before that instant. -/
theorem autosave_always_complete (evs₁ evs₂ : List AEvent) (a : AState) (A : List Bytes) (h : Good A a.fs) :
    ∀ x ∈ seenHist codeStyle evs₁ a,
      x ∈ seenHist codeStyle (evs₁ ++ evs₂) a ∧ Good (A ++ acceptedIn codeStyle evs₁ a) x :=
  fun x hx => ⟨seenHist_append codeStyle evs₁ evs₂ a x hx, seenHist_good evs₁ a A h x hx⟩

/-- the running process and the file agree -/
def InSync (a : AState) : Prop := ∀ c, a.cur = some c → a.fs.path = some c

/-- no storage fault, persistence on -/
def AEvent.clean : AEvent → Prop
  | .load l ft => ft = none ∧ l.persists = true
  | .restart => True

instance : (e : AEvent) → Decidable e.clean
  | .load l ft => by unfold AEvent.clean; infer_instance
  | .restart => isTrue trivial

theorem loadStep_insync (l : Load) (a : AState) (hp : l.persists = true) (h : InSync a) :
    InSync (loadStep codeStyle l none a).st ∧
    (l.accepted = true → (loadStep codeStyle l none a).st.cur = some l.cfg) := by
  unfold loadStep
  by_cases hs : sameCfg l a = true
  · simp only [hs, if_true]
    refine ⟨h, fun _ => ?_⟩
    simp only [sameCfg, Bool.and_eq_true, beq_iff_eq] at hs
    exact hs.2
  · simp only [hs, Bool.false_eq_true, if_false]
    by_cases hacc : l.accepted = true
    · simp only [hacc, Bool.not_true, Bool.false_eq_true, if_false, hp, if_true]
      have ho := ops_tmpRename_nofault a.fs l.cfg
      simp only [codeStyle, ho.2.1]
      exact ⟨fun c hc => by simp at hc; subst hc; exact ho.1, fun _ => by simp⟩
    · simp only [hacc, Bool.not_false, if_true]
      exact ⟨h, fun hh => absurd hh (by simp)⟩

theorem insync_preserved : ∀ (evs : List AEvent) (a : AState), (∀ e ∈ evs, e.clean) → InSync a →
    InSync (runLoads codeStyle evs a)
  | [], _, _, h => h
  | .restart :: es, a, hc, _ =>
    insync_preserved es _ (fun e he => hc e (by simp [he])) (fun c hcur => by simp [AEvent.step] at hcur)
  | .load l ft :: es, a, hc, h => by
    obtain ⟨hft, hp⟩ := hc (.load l ft) (by simp)
    subst hft
    exact insync_preserved es _ (fun e he => hc e (by simp [he])) (loadStep_insync l a hp h).1

/-- **autosave_latest_after_return.**  With persistence on and no storage fault, once the load
    of a config has returned successfully the autosave file is exactly that config — whatever
    was loaded, rejected, re-pushed unchanged or restarted before. -/
theorem autosave_latest_after_return (evs : List AEvent) (a : AState) (hc : ∀ e ∈ evs, e.clean) (h : InSync a)
    (l : Load) (hp : l.persists = true) (hacc : l.accepted = true) :
    (runLoads codeStyle (evs ++ [.load l none]) a).fs.path = some l.cfg := by
  have hrun : ∀ (es : List AEvent) (a : AState), runLoads codeStyle (es ++ [.load l none]) a
      = (loadStep codeStyle l none (runLoads codeStyle es a)).st := by
    intro es
    induction es with
    | nil => intro a; rfl
    | cons e es ih => intro a; simp only [List.cons_append, runLoads]; exact ih _
  rw [hrun]
  have := loadStep_insync l (runLoads codeStyle evs a) hp (insync_preserved evs a hc h)
  exact this.1 _ (this.2 hacc)

/-- **autosave_recovers_after_interrupted_autosave.**  Whatever an interrupted autosave left
    behind — the load `l0` is killed, fails or is torn at ANY of its file operations (`ft`), from
    ANY earlier state `a0` (in particular with a stale temp file: absent, empty, partial or a
    complete other config) — after the restart every later load that returns (persistence on, no
    further fault) leaves the autosave file equal to that load's config, and that is what
    `caddy run --resume` reads.  This holds because `creat` on the leftover temp file truncates
    and reuses it (O_TRUNC, as `os.WriteFile` does); see `Witness.autosave_excl_fails` for the
    O_EXCL variant. -/
theorem autosave_recovers_after_interrupted_autosave (a0 : AState) (l0 : Load) (ft : Option FFault)
    (evs : List AEvent) (hc : ∀ e ∈ evs, e.clean) (l : Load) (hp : l.persists = true) (hacc : l.accepted = true) :
    resumeConfig (runLoads codeStyle (.load l0 ft :: .restart :: (evs ++ [.load l none])) a0) = some l.cfg := by
  simp only [runLoads, resumeConfig]
  exact autosave_latest_after_return evs _ hc (fun c hcur => by simp [AEvent.step] at hcur) l hp hacc

/-- **the autosave file is the document AS SUBMITTED, ids included.**  `@id` tags are meta fields:
    they are removed before the config is decoded, so two documents that differ only in them run
    the same modules — but they are different documents, `caddy.Load` compares the re-encoded
    BYTES (`bytes.Equal(rawCfgJSON, newCfg)`), and `--resume` must bring the tags back (`/id/…`).
    For EVERY function `strip` (in particular `RemoveMetaFields`): a push whose document differs
    from the running one — even if only inside what `strip` removes — is not treated as unchanged;
    when it returns (persistence on, accepted, no fault) the autosave file is exactly the pushed
    bytes, not the running ones. -/
theorem autosave_exact_document (strip : Bytes → Bytes) (l : Load) (a : AState) (c : Bytes)
    (hcur : a.cur = some c) (_hstrip : strip c = strip l.cfg) (hne : c ≠ l.cfg)
    (hp : l.persists = true) (hacc : l.accepted = true) :
    (loadStep codeStyle l none a).res = .ok ∧ (loadStep codeStyle l none a).st.fs.path = some l.cfg ∧
    (loadStep codeStyle l none a).st.fs.path ≠ some c := by
  have hs : sameCfg l a = false := by
    simp only [sameCfg, hcur, Bool.and_eq_false_iff]
    right
    simpa using hne
  have ho := ops_tmpRename_nofault a.fs l.cfg
  have hpath : (loadStep codeStyle l none a).st.fs.path = some l.cfg := by
    unfold loadStep
    simp only [hs, Bool.false_eq_true, if_false, hacc, Bool.not_true, hp, if_true, codeStyle, ho.2.1]
    exact ho.1
  refine ⟨?_, hpath, ?_⟩
  · unfold loadStep
    simp only [hs, Bool.false_eq_true, if_false, hacc, Bool.not_true, hp, if_true, codeStyle, ho.2.1]
  · rw [hpath]
    intro h
    exact hne (Option.some.inj h).symm

/-- **autosave_only_if_persist_enabled.**  A load whose config has persistence off (or is
    null, or may not be persisted) performs no file operation and leaves both files as they
    were, in either style and under any fault. -/
theorem autosave_only_if_persist_enabled (sty : Style) (l : Load) (ft : Option FFault) (a : AState)
    (h : l.persists = false) :
    (loadStep sty l ft a).log = [] ∧ (loadStep sty l ft a).st.fs = a.fs ∧ (loadStep sty l ft a).seen = [a.fs] := by
  unfold loadStep
  split
  · simp
  · split
    · simp
    · simp [h]

/-- **autosave_only_accepted_configs.**  A rejected load performs no file operation; whenever a
    file operation is performed the load was accepted (the new config is running and the old
    one stopped: caddy.go:351-363 precede the write), and anything written is that config. -/
theorem autosave_only_accepted_configs (sty : Style) (l : Load) (ft : Option FFault) (a : AState) :
    (l.accepted = false → (loadStep sty l ft a).log = [] ∧ (loadStep sty l ft a).st.fs = a.fs) ∧
    (∀ op ∈ (loadStep sty l ft a).log, l.accepted = true ∧ l.persists = true ∧
      ∀ f d, op = .write f d → d = l.cfg) := by
  unfold loadStep
  split
  · simp
  · split
    · simp
    · rename_i hacc
      simp only [Bool.not_eq_true', Bool.not_eq_false] at hacc
      split
      · rename_i hp
        have hpre := runOps_log_prefix ft (autosaveOps sty l.cfg) 0 a.fs
        refine ⟨fun h => by simp [hacc] at h, ?_⟩
        have key : ∀ op ∈ (runOps ft (autosaveOps sty l.cfg) 0 a.fs).log,
            l.accepted = true ∧ l.persists = true ∧ ∀ f d, op = .write f d → d = l.cfg := by
          intro op hop
          refine ⟨hacc, hp, ?_⟩
          intro f d hd
          have hmem := hpre.subset hop
          subst hd
          cases sty <;> simp [autosaveOps] at hmem <;> exact hmem.2
        split <;> exact key
      · simp [hacc]

/-! ### non-vacuity (kernel-evaluated) -/

/-- the autosave of the current code performs exactly this operation sequence (the sequence
    strace shows for the real code) -/
example : (loadStep codeStyle (exLoad [1, 2, 3] true true) none ⟨none, ⟨none, none⟩⟩).log
    = [.creat .tmp, .write .tmp [1, 2, 3], .rename .tmp .path] := by decide

/-- a history with an accepted load, a rejected one, one with persistence off, a restart and a
    load killed while its temp file is half written: old config still in place -/
example : (runLoads codeStyle
      [.load (exLoad [1] true true) none, .load (exLoad [2] true false) none, .load (exLoad [3] false true) none,
       .restart, .load (exLoad [4, 4] true true) (some ⟨2, .killTorn 1⟩)] ⟨none, ⟨none, none⟩⟩).fs
    = ⟨some [1], some [4]⟩ := by decide

example : acceptedIn codeStyle
      [.load (exLoad [1] true true) none, .load (exLoad [2] true false) none, .load (exLoad [3] false true) none]
      ⟨none, ⟨none, none⟩⟩ = [[1], [3]] := by decide

example : ∀ e ∈ [AEvent.load (exLoad [1] true true) none, .restart, .load (exLoad [1] true true) none], e.clean := by
  decide

/-- config `[1]` is saved; the autosave of `[2,2]` is killed after one byte reached the temp file;
    restart; `[3]` is loaded: the stale temp file `[2]` was reused, the file is `[3]`, no leftover -/
example : (runLoads codeStyle
      [.load (exLoad [1] true true) none, .load (exLoad [2, 2] true true) (some ⟨2, .killTorn 1⟩), .restart]
      ⟨none, ⟨none, none⟩⟩).fs = ⟨some [1], some [2]⟩ ∧
    (runLoads codeStyle
      [.load (exLoad [1] true true) none, .load (exLoad [2, 2] true true) (some ⟨2, .killTorn 1⟩), .restart,
       .load (exLoad [3] true true) none] ⟨none, ⟨none, none⟩⟩).fs = ⟨some [3], none⟩ := by decide

/-! ## the resume side: `caddy run --resume` reads what the last load wrote

The writer (caddy.go) and the reader (cmd/commandfuncs.go cmdRun) find the autosave file through
the package variable `caddy.ConfigAutosavePath`, which `--envfile` processing re-computes
(Resume.lean).  What the property needs across that glue: both use the same directory, for every
process environment and every list of env files, and therefore a restart with `--resume` loads
the latest config whose load had returned. -/

theorem handleEnvFiles_spec : ∀ (files : List EnvFile) (s : CmdState), s.autosaveDir = appConfigDir s.env →
    (s.handleEnvFiles files).env = files.foldl applyEnvFile s.env ∧
    (s.handleEnvFiles files).autosaveDir = appConfigDir (files.foldl applyEnvFile s.env)
  | [], _, h => ⟨rfl, h⟩
  | f :: fs, s, _ => by
    have ih := handleEnvFiles_spec fs (s.loadEnvFile f) rfl
    simpa [CmdState.handleEnvFiles, CmdState.loadEnvFile] using ih

/-- **the autosave path is a function of the environment AFTER env-file processing**: every load
    of the process writes into `AppConfigDir()` of the process environment extended, file by
    file, with the variables it did not have -/
theorem writerDir_is_env_after_files (e : PEnv) (files : List EnvFile) :
    writerDir e files = appConfigDir (files.foldl applyEnvFile e) :=
  (handleEnvFiles_spec files (CmdState.init e) rfl).2

/-- **writer path = reader path**, for every process environment and every list of env files -/
theorem resume_reads_where_autosave_writes (e : PEnv) (files : List EnvFile) :
    readerDir codeReadAt e files = writerDir e files := rfl

/-- **resume_recovers_latest_push.**  A `caddy run` process (any environment, any env files, with
    or without `--resume`, on any disk) starts, any clean history of loads is pushed, then config
    `l` is pushed and its load returns (persistence on, accepted, no storage fault).  However the
    process ends — SIGKILL included: nothing more is written — the autosave file in the writer's
    directory is exactly `l`, and the next `caddy run --resume` with the same environment and env
    files loads exactly `l` (not `--config`). -/
theorem resume_recovers_latest_push (asLoad : Bytes → Load) (c : CmdLine) (d : CDisk) (evs : List AEvent)
    (hc : ∀ e ∈ evs, e.clean) (hfirst : (firstLoad codeReadAt asLoad c d).persists = true)
    (l : Load) (hp : l.persists = true) (hacc : l.accepted = true) :
    (processRun codeReadAt asLoad c (evs ++ [.load l none]) d (writerDir c.env c.files)).path = some l.cfg ∧
    firstLoad codeReadAt asLoad { c with resume := true }
      (processRun codeReadAt asLoad c (evs ++ [.load l none]) d) = asLoad l.cfg := by
  have hfile : (processRun codeReadAt asLoad c (evs ++ [.load l none]) d (writerDir c.env c.files)).path = some l.cfg := by
    simp only [processRun, CDisk.set, if_true]
    have := autosave_latest_after_return (.load (firstLoad codeReadAt asLoad c d) none :: evs)
      ⟨none, d (writerDir c.env c.files)⟩
      (fun e he => by
        simp only [List.mem_cons] at he
        rcases he with he | he
        · subst he; exact ⟨rfl, hfirst⟩
        · exact hc e he)
      (fun c' hcur => by simp at hcur) l hp hacc
    simpa using this
  refine ⟨hfile, ?_⟩
  simp only [firstLoad, if_true]
  rw [resume_reads_where_autosave_writes, hfile]

/-- **`persist_config off` in the Caddyfile means: never autosaved.**  Across the adapter
    (`persist_config off` ↦ `admin.config.persist: false`) and the decoded-field test of
    `unsyncedDecodeAndRun`: a load of such a config — at start-up, pushed, forced or not, accepted
    or not, under any fault — performs no file operation and leaves both files as they were; a
    Caddyfile WITHOUT the option is persisted like any other config (its load, when it returns
    without a fault, leaves the autosave file equal to it). -/
theorem caddyfile_persist_config (cfg : Bytes) (force accepted : Bool) (ft : Option FFault) (a : AState) :
    ((loadStep codeStyle (caddyfileLoad cfg .off force accepted) ft a).log = [] ∧
     (loadStep codeStyle (caddyfileLoad cfg .off force accepted) ft a).st.fs = a.fs) ∧
    (caddyfileLoad cfg .absent force accepted).persists = true ∧
    (InSync a → (loadStep codeStyle (caddyfileLoad cfg .absent true true) none a).st.fs.path = some cfg) := by
  refine ⟨?_, rfl, ?_⟩
  · have := autosave_only_if_persist_enabled codeStyle (caddyfileLoad cfg .off force accepted) ft a rfl
    exact ⟨this.1, this.2.1⟩
  · intro hs
    have := autosave_latest_after_return [] a (fun e he => by cases he) hs (caddyfileLoad cfg .absent true true) rfl rfl
    have hcfg : (caddyfileLoad cfg .absent true true).cfg = cfg := rfl
    rw [hcfg] at this
    simpa [runLoads, AEvent.step] using this

/-- **the CA root on the default storage is reloaded unchanged across restarts**: the data
    directory is a function of the process environment and the env files alone
    (`storageDir`), so every process of a history with the same command line looks where the first
    one wrote: the root it uses is the root the first one created, whatever was created since. -/
theorem default_storage_root_reloaded (roots : DataDir → Option Nat) (dir : DataDir) (fresh fresh' : Nat) :
    (useRoot (useRoot roots dir fresh).2 dir fresh').1 = (useRoot roots dir fresh).1 ∧
    (useRoot (useRoot roots dir fresh).2 dir fresh').2 = (useRoot roots dir fresh).2 := by
  unfold useRoot
  cases h : roots dir with
  | none => simp
  | some r => simp [h]

example : storageDir (some .unset) ⟨.unset, .dir 1⟩ [[(.data, .dir 2)]] = .xdgData 2 ∧
    storageDir (some (.dir 0)) ⟨.unset, .dir 1⟩ [[(.data, .dir 2)]] = .xdgData 0 ∧
    storageDir (some .unset) ⟨.unset, .unset⟩ [[(.home, .dir 3)]] = .homeShare 3 ∧
    storageDir none ⟨.unset, .dir 1⟩ [] = .fixed := by decide

/-- an env file that defines XDG_CONFIG_HOME moves the autosave directory (so the theorems above
    are not about a constant) -/
example : writerDir ⟨.unset, .dir 1⟩ [[(.xdg, .dir 2)]] = .xdg 2 ∧ appConfigDir ⟨.unset, .dir 1⟩ = .home 1 ∧
    writerDir ⟨.empty, .dir 1⟩ [[(.xdg, .dir 2)]] = .home 1 ∧
    writerDir ⟨.unset, .unset⟩ [[(.home, .dir 3)], [(.xdg, .dir 2), (.home, .dir 0)]] = .xdg 2 := by decide

/-! ### regenerated ties: the ORDER the theorems are about is the order the source has now

`tools/extract` reads these facts out of modules/caddypki/ca.go and caddy.go on every run
(`Gen/CAWrites.lean`, `Gen/Autosave.lean`). The theorems above are proved for the model parameters
`.keyFirst` (CA) and `.tmpRename` (autosave); the two statements below say, in the source's own
identifiers, that this is what the code does: the key is stored before the certificate, the
certificate is the marker whose absence triggers generation, and autosave writes a temporary file
(`ConfigAutosavePath` + a suffix) and renames it over `ConfigAutosavePath`, never writing that file in place,
after the old configuration was stopped. The extractor follows helpers of the same file and resolves local
variables and parameters, so extracting these steps into a helper does not change the facts; a reordering does. -/

theorem ca_write_order_matches_source :
    Gen.genRootStores = ["storageKeyRootKey", "storageKeyRootCert"] ∧
    Gen.rootMarker = "storageKeyRootCert" ∧
    Gen.genIntermediateStores = ["storageKeyIntermediateKey", "storageKeyIntermediateCert"] ∧
    Gen.intermediateMarker = "storageKeyIntermediateCert" := by decide

theorem autosave_program_matches_source :
    Gen.autosaveOps = ["MkdirAll", "WriteFile", "Rename"] ∧
    Gen.autosaveWritesTempThenRenames = true ∧
    Gen.autosaveNeverWritesInPlace = true ∧
    Gen.autosaveAfterSwap = true := by decide

/-- the reader of Resume.lean (`codeReadAt = .afterEnvFiles`, and `loadEnvFile` re-computing the
    variable) is what the source says: the only `os.ReadFile` of `cmdRun` names the package
    variable `caddy.ConfigAutosavePath` itself, `cmdRun` does not mention that variable above its
    single `handleEnvFileFlag` call (no copy is taken early), and `loadEnvFromFile` assigns it from
    `caddy.AppConfigDir()` after its last `os.Setenv`. -/
theorem resume_read_matches_source :
    Gen.cmdRunReadFileArgs = ["caddy.ConfigAutosavePath"] ∧ Gen.cmdRunEnvFileCalls = 1 ∧
    Gen.cmdRunAutosavePathUsesBeforeEnvFile = 0 ∧ Gen.cmdRunReadsBeforeEnvFile = 0 ∧
    Gen.loadEnvFromFileRecomputesAutosavePath = true := by decide

/-- every successful return of `changeConfig` has run the new document (and so autosaved it):
    between computing `newCfg` and the single `unsyncedDecodeAndRun` call the function only returns
    errors (the encode error, `errSameConfig` for byte-identical documents, the index error), and
    it has no `return nil` above that call — there is no short-cut to success in front of the
    reload, which is what `loadStep`'s only no-write success (`sameCfg`: identical bytes) models. -/
theorem change_config_runs_before_success_matches_source :
    Gen.changeConfigReturnsBeforeRun = ["APIError{…}", "errSameConfig", "APIError{…}"] ∧
    Gen.changeConfigNilReturnsBeforeRun = 0 ∧ Gen.changeConfigRunCalls = 1 := by decide

/-! ### the /load endpoint (caddyconfig/load.go handleLoad, `Endpoint.lean`) -/

/-- a concrete adapter for the examples: the document is the body without its first byte; the empty body is an error -/
def exAdapt : Bytes → Option Bytes
  | [] => none
  | _ :: t => some t

def exMk (b : Bytes) (f : Bool) : Load := ⟨b, f, true, true, true, true⟩

example : FaithfulMk exMk := fun _ _ => ⟨rfl, rfl⟩

/-- **load_endpoint_autosaves_adapted_document.**  A body pushed to `POST /load` with the Content-Type of a
    registered adapter (a Caddyfile): if the adapter yields `j` and `j` is accepted with persistence on — and it
    is not the byte-identical running document, or the reload is forced — then when the request returns the
    running document AND the autosave file are `j`, the adapted JSON; the file never holds the body that was sent. -/
theorem load_endpoint_autosaves_adapted_document (adapt : Bytes → Option Bytes) (mk : Bytes → Bool → Load)
    (hmk : FaithfulMk mk) (r : LoadReq) (a : AState) (j : Bytes)
    (hpost : r.post = true) (hct : r.ctype = .adapter true) (hj : adapt r.body = some j)
    (hacc : (mk j (forceOf r.cache)).accepted = true) (hp : (mk j (forceOf r.cache)).persists = true)
    (hnew : a.cur ≠ some j ∨ r.cache = .mustRevalidate) :
    (endpointStep adapt mk r a).res = .ok ∧ (endpointStep adapt mk r a).st.fs.path = some j ∧
    (endpointStep adapt mk r a).st.cur = some j ∧
    (j ≠ r.body → (endpointStep adapt mk r a).st.fs.path ≠ some r.body) := by
  have hs : sameCfg (mk j (forceOf r.cache)) a = false := by
    simp only [sameCfg, (hmk j _).1, (hmk j _).2, Bool.and_eq_false_iff]
    cases hnew with
    | inl h => right; simpa using h
    | inr h => left; simp [h, forceOf]
  have h := loadStep_fresh_ok _ a hs hp hacc
  rw [(hmk j _).1] at h
  have he : endpointStep adapt mk r a = loadStep codeStyle (mk j (forceOf r.cache)) none a := by
    simp [endpointStep, handleLoad, hpost, hct, adaptByContentType, hj]
  rw [he]
  refine ⟨h.1, h.2.1, h.2.2.1, ?_⟩
  intro hne
  rw [h.2.1]
  intro hh
  exact hne (Option.some.inj hh)

example : (endpointStep exAdapt exMk ⟨true, .adapter true, .absent, [9, 7]⟩ ⟨some [1], ⟨some [1], none⟩⟩).st.fs.path = some [7] ∧
    (endpointStep exAdapt exMk ⟨true, .adapter true, .absent, [9, 7]⟩ ⟨some [1], ⟨some [1], none⟩⟩).res = .ok := by decide

/-- **load_endpoint_refusal_touches_nothing.**  A request the handler answers before `caddy.Load` (wrong method;
    unparsable Content-Type, unknown adapter, adapter error) changes neither the running document nor any file. -/
theorem load_endpoint_refusal_touches_nothing (adapt : Bytes → Option Bytes) (mk : Bytes → Bool → Load)
    (r : LoadReq) (a : AState)
    (h : r.post = false ∨ adaptByContentType adapt r.ctype r.body = none) :
    (endpointStep adapt mk r a).res = .rejected ∧ (endpointStep adapt mk r a).st = a ∧
    (endpointStep adapt mk r a).log = [] := by
  cases h with
  | inl h => simp [endpointStep, handleLoad, h]
  | inr h => cases hp : r.post <;> simp [endpointStep, handleLoad, h, hp]

example : adaptByContentType exAdapt (.adapter true) [] = none ∧ adaptByContentType exAdapt (.adapter false) [1] = none ∧
    (endpointStep exAdapt exMk ⟨true, .adapter true, .mustRevalidate, []⟩ ⟨some [1], ⟨some [1], none⟩⟩).st
      = ⟨some [1], ⟨some [1], none⟩⟩ := by decide

/-- **load_endpoint_force_is_exact_header.**  Pushing the byte-identical running document: with
    `Cache-Control: must-revalidate` it is loaded again and the autosave file is written again in full (create
    temp, write, rename — so a damaged or removed file is restored); with no header, or ANY other value (the
    handler compares with `==`: `no-cache, must-revalidate` is another value), it is the no-op. -/
theorem load_endpoint_force_is_exact_header (adapt : Bytes → Option Bytes) (mk : Bytes → Bool → Load)
    (hmk : FaithfulMk mk) (r : LoadReq) (a : AState) (j : Bytes)
    (hpost : r.post = true) (hj : adaptByContentType adapt r.ctype r.body = some j)
    (hcur : a.cur = some j)
    (hacc : ∀ f, (mk j f).accepted = true) (hp : ∀ f, (mk j f).persists = true) :
    (r.cache = .mustRevalidate →
      (endpointStep adapt mk r a).res = .ok ∧ (endpointStep adapt mk r a).log = autosaveOps .tmpRename j ∧
      (endpointStep adapt mk r a).st.fs.path = some j) ∧
    (r.cache ≠ .mustRevalidate →
      (endpointStep adapt mk r a).res = .same ∧ (endpointStep adapt mk r a).log = [] ∧
      (endpointStep adapt mk r a).st = a) := by
  have he : endpointStep adapt mk r a = loadStep codeStyle (mk j (forceOf r.cache)) none a := by
    simp [endpointStep, handleLoad, hpost, hj]
  rw [he]
  constructor
  · intro hc
    have hs : sameCfg (mk j (forceOf r.cache)) a = false := by
      simp [sameCfg, (hmk j _).2, hc, forceOf]
    have h := loadStep_fresh_ok _ a hs (hp _) (hacc _)
    rw [(hmk j _).1] at h
    exact ⟨h.1, h.2.2.2, h.2.1⟩
  · intro hc
    have hf : forceOf r.cache = false := by
      cases hcc : r.cache <;> simp_all [forceOf]
    have hs : sameCfg (mk j (forceOf r.cache)) a = true := by
      simp [sameCfg, (hmk j _).2, (hmk j _).1, hf, hcur]
    unfold loadStep
    simp [hs]

example : (endpointStep exAdapt exMk ⟨true, .json, .mustRevalidate, [7]⟩ ⟨some [7], ⟨none, none⟩⟩).st.fs.path = some [7] ∧
    (endpointStep exAdapt exMk ⟨true, .json, .other, [7]⟩ ⟨some [7], ⟨none, none⟩⟩).st.fs.path = none ∧
    (endpointStep exAdapt exMk ⟨true, .json, .other, [7]⟩ ⟨some [7], ⟨none, none⟩⟩).res = .same := by decide

/-- the handler as modelled is the handler in the tree: `forceReload` is one `==` comparison of the
    `Cache-Control` header with `must-revalidate`; `caddy.Load` is called once, with `body` and that flag; `body`
    is the raw buffer and then the result of `adaptByContentType(ctHeader, body)` (regenerated fact
    `Gen/LoadEndpoint.lean`) -/
theorem load_endpoint_matches_source :
    Gen.loadForceHeader = codeForceHeader ∧ Gen.loadForceCompare = codeForceCompare ∧
    Gen.loadForceValue = codeForceValue ∧ Gen.loadForceDefs = 1 ∧ Gen.loadCalls = 1 ∧
    Gen.loadCallArgs = codeLoadArgs ∧ Gen.loadBodyAssigns = codeBodyAssigns ∧
    Gen.loadAdaptArgs = ["ctHeader", "body"] := by decide

/-! ### which storage the CA lives on (ca.go Provision: the CA's own `storage` module, else the config's) -/

/-- **startup_touches_only_selected_storage.**  A start-up — interrupted anywhere or not — on one storage leaves the other storage exactly as it was -/
theorem startup_touches_only_selected_storage (ord : Order) (ds : Disks) (s : StoreSel) (e : Event) :
    ((ds.step ord s e).sel s.other).store = (ds.sel s.other).store := by
  cases s <;> rfl

example : ((Disks.empty.step codeOrder .own ⟨⟨1, 100⟩, none⟩).sel .global).store .rootCrt = none ∧
    ((Disks.empty.step codeOrder .own ⟨⟨1, 100⟩, none⟩).sel .own).store .rootCrt ≠ none := by decide

/-- a config that names another storage starts a NEW CA there (by design), and going back finds the old one -/
example : ((runHist2 codeOrder [(.global, ⟨⟨1, 100⟩, none⟩), (.own, ⟨⟨2, 100⟩, none⟩), (.global, ⟨⟨3, 100⟩, none⟩)] Disks.empty).sel .own).store .rootCrt
      ≠ ((runHist2 codeOrder [(.global, ⟨⟨1, 100⟩, none⟩), (.own, ⟨⟨2, 100⟩, none⟩), (.global, ⟨⟨3, 100⟩, none⟩)] Disks.empty).sel .global).store .rootCrt ∧
    ((runHist2 codeOrder [(.global, ⟨⟨1, 100⟩, none⟩), (.own, ⟨⟨2, 100⟩, none⟩), (.global, ⟨⟨3, 100⟩, none⟩)] Disks.empty).sel .global).store .rootCrt
      = ((runHist2 codeOrder [(.global, ⟨⟨1, 100⟩, none⟩)] Disks.empty).sel .global).store .rootCrt := by decide

/-- **root_stable_per_storage** — `root_stable`'s precondition "the same storage in every start-up" as a
    theorem about the world with two storages: once a root certificate is on a storage (`root_stable`: after the
    first successful start-up there), every later history of start-ups whose configs select EITHER storage at will
    (the CA's `storage` module added, dropped, replaced by reloads; each start-up interrupted anywhere) leaves
    that storage's root certificate and key unchanged, and every later start-up that selects it and returns uses
    that root. -/
theorem root_stable_per_storage (sel : StoreSel) (b : Blob) :
    ∀ (evs : List (StoreSel × Event)) (ds : Disks), (ds.sel sel).store .rootCrt = some b →
      ((runHist2 codeOrder evs ds).sel sel).store .rootCrt = some b ∧
      ((runHist2 codeOrder evs ds).sel sel).store .rootKey = (ds.sel sel).store .rootKey ∧
      ∀ (e : Event) (m : Mem) (y : Sys),
        e.run codeOrder ((runHist2 codeOrder evs ds).sel sel) = .ok m y → m.root.crt = b
  | [], ds, h => by
    refine ⟨h, rfl, ?_⟩
    intro e m y hr
    have hs := wp_sound e.fault (startup codeOrder e.cfg) _ (boot (ds.sel sel))
      (wp_startup_root_frozen codeOrder e.cfg _ _ b h)
    unfold Event.run at hr
    change exec e.fault (startup codeOrder e.cfg) (boot (ds.sel sel)) = _ at hr
    rw [hr] at hs
    exact hs.2
  | (s, e) :: es, ds, h => by
    have h1 : ((ds.step codeOrder s e).sel sel).store .rootCrt = some b ∧
        ((ds.step codeOrder s e).sel sel).store .rootKey = (ds.sel sel).store .rootKey := by
      by_cases hse : s = sel
      · subst hse
        have hf := root_frozen codeOrder [e] (ds.sel s) b h
        cases s <;> exact hf
      · cases s <;> cases sel <;> first | exact absurd rfl hse | exact ⟨h, rfl⟩
    have ih := root_stable_per_storage sel b es (ds.step codeOrder s e) h1.1
    exact ⟨ih.1, ih.2.1.trans h1.2, ih.2.2⟩

/-- the hypothesis of `root_stable_per_storage` is what one uninterrupted start-up establishes -/
example : (((Disks.empty.step codeOrder .own ⟨⟨1, 100⟩, none⟩)).sel .own).store .rootCrt = some (.cert 0 0 (1 + rootLife)) := by decide

/-- the selection `Disks.sel` models is the one in the tree, and the whole start-up program runs on the selected
    storage: CA.Provision assigns the CA's storage field twice — its own module if one is configured, else
    `ctx.Storage()` — and NO storage operation of package caddypki has a receiver that does not resolve, by data flow
    (method receiver's field, locals assigned from it, parameters every call site fills with it — whatever the
    helpers and locals are called), to that field; the package asks a context for its storage once (in Provision)
    and never names the default storage (regenerated fact `Gen/CAStorage.lean`; one operation elsewhere would
    split a CA's files over two storages, which `Event.run` on ONE `Disk` could not express) -/
theorem ca_storage_selection_matches_source :
    Gen.caStorageAssigns = ["ca.StorageRaw!=nil => cmStorage", "ca.storage==nil => ctx.Storage()"] ∧
    Gen.caStorageOpsElsewhere = 0 ∧ Gen.caStorageOpKinds = ["Load", "Store"] ∧
    Gen.caContextStorageCalls = 1 ∧ Gen.caDefaultStorageMentions = 0 := by decide

end CaddyModel.C14
