import CaddyModel.C14.Model
namespace CaddyModel.C14
theorem placeholder_ops_from_empty :
    ((Event.mk ⟨1, 100⟩ none).run codeOrder Disk.empty).sys.log =
      [.load .rootCrt, .store .rootKey (.key 0), .store .rootCrt (.cert 0 0 (1 + rootLife)),
       .load .intCrt, .store .intKey (.key 1), .store .intCrt (.cert 1 0 101)] := by decide
end CaddyModel.C14
