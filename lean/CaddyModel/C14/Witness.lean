/-
C14 — the operation orders the tree USED to have violate the property (so the theorems of
Props.lean are not vacuous: they depend on the order the model takes from the code, and that
order is compared with the observed one on every run).

F10 (fixed by e2c52cb): certificate stored before key  → one crash bricks the CA for good.
F11 (fixed by 5246ab3): autosave written in place       → the file is empty / partial at some instant.

Plus one fact about the CURRENT code that the recovery theorem relies on: after an interrupted
renewal, `Provision` alone holds a mismatched intermediate pair; it is `Start`'s renewal that
makes the start-up end consistent.
-/
import CaddyModel.C14.Lemmas
import CaddyModel.C14.FileStoreLemmas
import CaddyModel.C14.Resume

namespace CaddyModel.C14

def Res.value? : Res α → Option α
  | .ok a _ => some a
  | _ => none

/-- a start-up on a store with a root certificate and no root key fails with "loading root
    key", in either order, whatever else is stored -/
theorem startup_fails_without_root_key (ord : Order) (c : Cfg) (d : Disk) (p sg ra : Nat)
    (h1 : d.store .rootCrt = some (.cert p sg ra)) (h2 : d.store .rootKey = none) :
    ∃ y, (Event.mk c none).run ord d = .err .loadRootKey y := by
  have hw : wpn (fun e _ _ => e = .loadRootKey) (startup ord c) (fun _ _ _ => False) d.store d.fresh := by
    unfold startup provision
    rw [wpn_bind, wpn_bind]
    unfold loadOrGenRoot
    simp only [wpn, h1, h2]
  have := wpn_sound (startup ord c) _ (boot d) hw
  unfold Event.run
  show ∃ y, exec none (startup ord c) (boot d) = .err .loadRootKey y
  cases hr : exec none (startup ord c) (boot d) with
  | ok m y => rw [hr] at this; exact this.elim
  | err e y => rw [hr] at this; cases this; exact ⟨y, rfl⟩
  | crash y => rw [hr] at this; exact this.elim

/-- the interruption of F10: the creation dies right after its first write -/
def f10 : Event := ⟨⟨1, 100⟩, some ⟨2, .crashAfter⟩⟩

/-- **recovery fails for the old order** (`⊬ recovery` of DESIGN §4, F10): with the
    certificate stored first, ONE crash after the first write leaves a store on which every
    later start-up fails — after any further history, forever. -/
theorem recovery_old_order_fails :
    ∀ (evs : List Event) (c : Cfg),
      ∃ y, (Event.mk c none).run .certFirst (runHist .certFirst (f10 :: evs) Disk.empty) = .err .loadRootKey y := by
  intro evs c
  have h0 : (f10.after .certFirst Disk.empty).store .rootCrt = some (.cert 0 0 (1 + rootLife)) ∧
      (f10.after .certFirst Disk.empty).store .rootKey = none := by decide
  have hfr := root_frozen .certFirst evs (f10.after .certFirst Disk.empty) _ h0.1
  exact startup_fails_without_root_key .certFirst c _ 0 0 (1 + rootLife) hfr.1 (hfr.2.trans h0.2)

/-- **autosave_always_complete fails for in-place writing** (`⊬ autosave_always_complete`,
    F11): config `[1]` is saved; the load of `[2,2]` truncates the file and writes — at two
    instants the autosave file is neither absent nor a complete accepted config. -/
theorem autosave_old_style_fails :
    ∃ (evs : List AEvent) (a : AState) (A : List Bytes), Good A a.fs ∧
      ∃ x ∈ seenHist .inPlace evs a, ¬ Good (A ++ acceptedIn .inPlace evs a) x :=
  ⟨[.load (exLoad [2, 2] true true) none], ⟨some [1], ⟨some [1], none⟩⟩, [[1]], by decide, by decide⟩

/-- which instants: the empty file and the half-written one -/
example : (seenHist .inPlace [.load (exLoad [2, 2] true true) none] ⟨some [1], ⟨some [1], none⟩⟩).map (·.path)
    = [some [1], some [], some [], some [2], some [2, 2], some [2, 2], some [2, 2]] := by decide

/-- no injected fault -/
def AEvent.faultFree : AEvent → Prop
  | .load _ ft => ft = none
  | .restart => True

/-- with an O_EXCL temp file, once a temp file exists nothing is ever saved again: no load of
    any later history, in any later process, changes either file -/
theorem autosave_excl_wedged : ∀ (evs : List AEvent) (a : AState), a.fs.tmp.isSome = true →
    (∀ e ∈ evs, e.faultFree) → (runLoads .tmpExcl evs a).fs = a.fs
  | [], _, _, _ => rfl
  | .restart :: es, a, h, hf => by
    simp only [runLoads, AEvent.step]
    exact autosave_excl_wedged es _ h (fun e he => hf e (by simp [he]))
  | .load l ft :: es, a, h, hf => by
    have hft : ft = none := hf (.load l ft) (by simp)
    subst hft
    have hstep : ((AEvent.load l none).step .tmpExcl a).fs = a.fs := by
      simp only [AEvent.step, loadStep]
      split
      · rfl
      · split
        · rfl
        · split
          · simp [autosaveOps, runOps, ffires, FOp.refused, h]
          · rfl
    simp only [runLoads]
    rw [autosave_excl_wedged es _ (by rw [hstep]; exact h) (fun e he => hf e (by simp [he])), hstep]

/-- **autosave_recovers_after_interrupted_autosave fails for an O_EXCL temp file.**  `[1]` is
    saved; the autosave of `[2]` is killed between creating the temp file and writing it; from then
    on, through any fault-free history and for every later load, the autosave file stays `[1]`:
    `--resume` comes back with an outdated config. -/
theorem autosave_excl_fails :
    ∀ (evs : List AEvent), (∀ e ∈ evs, e.faultFree) → ∀ (l : Load),
      resumeConfig (runLoads .tmpExcl
        (.load (exLoad [2] true true) (some ⟨2, .killBefore⟩) :: .restart :: (evs ++ [.load l none]))
        ⟨none, ⟨some [1], none⟩⟩) = some [1] := by
  intro evs hf l
  simp only [runLoads, resumeConfig]
  have h0 : ((AEvent.restart).step .tmpExcl ((AEvent.load (exLoad [2] true true) (some ⟨2, .killBefore⟩)).step .tmpExcl
      ⟨none, ⟨some [1], none⟩⟩)) = ⟨none, ⟨some [1], some []⟩⟩ := by decide
  rw [h0]
  have hw := autosave_excl_wedged (evs ++ [.load l none]) ⟨none, ⟨some [1], some []⟩⟩ rfl
    (fun e he => by
      simp only [List.mem_append, List.mem_singleton] at he
      rcases he with he | he
      · exact hf e he
      · subst he; rfl)
  rw [hw]

/-- the same history under the current code ends with the new config (instance of
    `autosave_recovers_after_interrupted_autosave`, evaluated) -/
example : resumeConfig (runLoads codeStyle
      [.load (exLoad [2] true true) (some ⟨2, .killBefore⟩), .restart, .load (exLoad [3] true true) none]
      ⟨none, ⟨some [1], none⟩⟩) = some [3] := by decide

/-- **what the pair check is needed for, 1.**  The revision before the check (`keyFirstUnchecked`),
    intermediate lifetime 0: start-up 2 dies after writing the new intermediate key (operation 7).
    `Provision` of start-up 3 then returned certificate 2 with key 3 — a mismatched pair that was
    live until `Start`'s renewal replaced it. -/
theorem provision_alone_after_interrupted_renewal_mismatched_old_code :
    ∃ (evs : List Event) (c : Cfg) (m : Mem), Monotone 0 evs ∧ lastTime 0 evs ≤ c.now ∧
      (exec none (provision .keyFirstUnchecked c) (boot (runHist .keyFirstUnchecked evs Disk.empty))).value? = some m ∧
      m.inter.keyId ≠ m.inter.pub :=
  ⟨[⟨⟨1, 0⟩, none⟩, ⟨⟨2, 0⟩, some ⟨7, .crashAfter⟩⟩], ⟨3, 50⟩, ⟨⟨0, 0, 1 + rootLife, 0⟩, ⟨2, 0, 1, 3⟩⟩,
    by decide, by decide, by decide, by decide⟩

/-- the same history under the current code: `Provision` detects the foreign key and returns a
    fresh, matching pair -/
example : (exec none (provision codeOrder ⟨3, 50⟩)
      (boot (runHist codeOrder [⟨⟨1, 0⟩, none⟩, ⟨⟨2, 0⟩, some ⟨7, .crashAfter⟩⟩] Disk.empty))).value?
    = some ⟨⟨0, 0, 1 + rootLife, 0⟩, ⟨4, 0, 53, 4⟩⟩ := by decide

/-! ### renewal at run time: recovery failed before the pair check -/

/-- start-up 1 (lifetime 0) leaves a chain whose intermediate is due; start-up 2 (lifetime 100)
    renews it in `Start`: the new key is written, the write of the new certificate REPORTS AN
    ERROR AFTER TAKING EFFECT (operation 8) — the error is logged, the process keeps running with
    the old pair in memory while storage holds the new pair; its maintenance pass at time 3
    finds the in-memory certificate due, renews AGAIN and dies right after writing the key
    (operation 3 of the pass) -/
def runtimeWitness : List Step :=
  [.start ⟨⟨1, 0⟩, none⟩, .start ⟨⟨2, 100⟩, some ⟨8, .failAfter⟩⟩, .tick 3 (some ⟨3, .crashAfter⟩)]

/-- **what the pair check is needed for, 2: recovery_with_runtime_renewal failed for the old
    code.**  After `runtimeWitness` storage holds certificate 3 — valid until 102, not due — next
    to key 4.  Before the check, the next uninterrupted start-up SUCCEEDED, loaded that pair, did
    not renew (nothing is due), and held an intermediate key that does not belong to its
    certificate (this was known finding ca-unsynced-runtime-renewal-after-reported-failed-cert-write,
    reproduced on the real code; corpus/C14/runtime-renewal.txt keeps the history as a regression). -/
theorem recovery_with_runtime_renewal_old_code_fails :
    ∃ (sts : List Step) (c : Cfg) (m : Mem), StepsMonotone 0 sts ∧ lastStepTime 0 sts ≤ c.now ∧
      ((Event.mk c none).run .keyFirstUnchecked (runSteps .keyFirstUnchecked sts World.empty).disk).value? = some m ∧
      ¬ m.Consistent :=
  ⟨runtimeWitness, ⟨4, 100⟩, ⟨⟨0, 0, 1 + rootLife, 0⟩, ⟨3, 0, 102, 4⟩⟩,
    by decide, by decide, by decide, by decide⟩

/-- the same history under the current code ends with a fresh, consistent intermediate -/
example : ((Event.mk ⟨4, 100⟩ none).run codeOrder (runSteps codeOrder runtimeWitness World.empty).disk).value?
    = some ⟨⟨0, 0, 1 + rootLife, 0⟩, ⟨5, 0, 104, 5⟩⟩ := by decide

/-! ### FileStorage: a storage that writes the key file in place is not atomic -/

/-- **fileStore_atomic fails for in-place writing**: truncate-then-write of `root.crt`, the write
    torn after 3 bytes — the key file holds a torn value, which `Load` would hand to the PEM
    decoder (every later start-up: "parsing root certificate PEM") -/
theorem inPlace_store_not_atomic :
    ∃ (ff : Option FFault) (k : Key) (b : Blob),
      (runDOps ff (inPlaceStoreOps k b) 0 Dir.empty).dir.keys k = some (.part b 3) ∧
      ¬ KeysWhole (runDOps ff (inPlaceStoreOps k b) 0 Dir.empty).dir := by
  refine ⟨some ⟨2, .killTorn 3⟩, .rootCrt, .cert 0 0 0, by decide, ?_⟩
  intro h
  obtain ⟨b, hb⟩ := h .rootCrt (.part (.cert 0 0 0) 3) (by decide)
  cases hb

/-! ### resume: a reader that evaluates the autosave path before the env files are processed -/

/-- HOME is /1, the env file defines XDG_CONFIG_HOME=/2; `--config` holds `[1]` -/
def resumeWitness : CmdLine := ⟨⟨.unset, .dir 1⟩, [[(.xdg, .dir 2)]], true, exLoad [1] true true⟩

/-- **resume_recovers_latest_push fails for a reader that copies `caddy.ConfigAutosavePath` before
    `handleEnvFileFlag`** (seeded mutant C14-resume-reads-autosave-path-before-envfile): the first
    process autosaves the pushed config `[2]` into $XDG_CONFIG_HOME/caddy; the restarted process
    looks into $HOME/.config/caddy, finds nothing, loads `--config` `[1]` — and its own autosave
    then OVERWRITES the pushed config. -/
theorem resume_before_envfiles_fails :
    (processRun .beforeEnvFiles (fun b => exLoad b true true) resumeWitness [.load (exLoad [2] true true) none]
        CDisk.empty (.xdg 2)).path = some [2] ∧
    (firstLoad .beforeEnvFiles (fun b => exLoad b true true) resumeWitness
      (processRun .beforeEnvFiles (fun b => exLoad b true true) resumeWitness [.load (exLoad [2] true true) none]
        CDisk.empty)).cfg = [1] ∧
    (processRun .beforeEnvFiles (fun b => exLoad b true true) resumeWitness []
      (processRun .beforeEnvFiles (fun b => exLoad b true true) resumeWitness [.load (exLoad [2] true true) none]
        CDisk.empty) (.xdg 2)).path = some [1] := by decide

/-- the same history under the current code resumes with `[2]` -/
example : (firstLoad codeReadAt (fun b => exLoad b true true) resumeWitness
      (processRun codeReadAt (fun b => exLoad b true true) resumeWitness [.load (exLoad [2] true true) none]
        CDisk.empty)).cfg = [2] := by decide

/-! ### a push that differs only in ids, accepted without a reload -/

/-- `changeConfig` with a shortcut in front of `unsyncedDecodeAndRun`: a non-forced push whose
    document equals the running one after `strip` adopts the new bytes as the running document and
    returns success — no reload, hence no autosave (seeded mutant C14-id-only-push-skips-autosave) -/
def loadStepIdShortcut (strip : Bytes → Bytes) (l : Load) (ft : Option FFault) (a : AState) : LoadOut :=
  if !l.force && (a.cur.map strip == some (strip l.cfg)) then ⟨.ok, { a with cur := some l.cfg }, [], [a.fs]⟩
  else loadStep codeStyle l ft a

/-- documents are a body byte followed by an id byte; `strip` drops the id -/
def stripLast (b : Bytes) : Bytes := b.dropLast

/-- **autosave_exact_document fails with the shortcut**: `[7, 1]` (body 7, id 1) is running and
    saved; `[7, 2]` (the id renamed) is pushed: success is returned, the running document is
    `[7, 2]`, the autosave file still holds `[7, 1]` — which is what `--resume` would bring back. -/
theorem autosave_id_shortcut_fails :
    (loadStepIdShortcut stripLast (exLoad [7, 2] true true) none ⟨some [7, 1], ⟨some [7, 1], none⟩⟩).res = .ok ∧
    (loadStepIdShortcut stripLast (exLoad [7, 2] true true) none ⟨some [7, 1], ⟨some [7, 1], none⟩⟩).st.cur = some [7, 2] ∧
    resumeConfig (loadStepIdShortcut stripLast (exLoad [7, 2] true true) none ⟨some [7, 1], ⟨some [7, 1], none⟩⟩).st
      = some [7, 1] := by decide

/-- the code as it is saves `[7, 2]` -/
example : resumeConfig (loadStep codeStyle (exLoad [7, 2] true true) none ⟨some [7, 1], ⟨some [7, 1], none⟩⟩).st
    = some [7, 2] := by decide

end CaddyModel.C14
