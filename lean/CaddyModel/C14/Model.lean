/-
C14 — model of the two things caddy persists for use after a restart.

Part 1 (modules/caddypki/ca.go, pki.go, maintain.go): the local CA.  Storage is
`Key → Option Blob`; the code is a *program* (`Prog`) whose only effects are
`storage.Load`, `storage.Store` and key generation, written continuation style so that it
reads like the Go text (`if err != nil { return … }` is the `onErr` branch of an operation).
`exec` runs a program against a store with at most one injected fault: the process dies at
the k-th storage operation, or that operation reports an error — in both cases before or
after the operation took effect.  A start-up is `Provision` (loadOrGenRoot,
loadOrGenIntermediate) followed by `Start` (renewCerts: an intermediate inside its renewal
window is regenerated; errors there are logged, not returned).

Part 2 (caddy.go:unsyncedDecodeAndRun): config autosave as a list of file operations
(`WriteFile(tmp)` = create/truncate + write, then `rename`), with kill / failure / torn-write
faults at every operation, load histories with persistence on/off, rejected loads, unchanged
configs and process restarts.

Both parts take the ORDER of operations as a parameter (`Order`, `Style`) whose value for the
current tree is `codeOrder` / `codeStyle`; the operation sequence the model prints is compared
with the sequence the real code is observed to perform on every run.
-/
import CaddyModel.Util.Hex

namespace CaddyModel.C14

/-! ## Part 1 — storage, faults, programs -/

/-- the four storage keys of one CA (`pki/authorities/<id>/{root,intermediate}.{crt,key}`) -/
inductive Key
  | rootCrt | rootKey | intCrt | intKey
deriving DecidableEq, Repr

/-- what a stored PEM file decodes to: private key number `id` (keys are numbered in the
    order they are generated), or a certificate for public key `pub` signed with private key
    `signer` whose renewal window opens at time `renewAt` -/
inductive Blob
  | key (id : Nat)
  | cert (pub signer renewAt : Nat)
deriving DecidableEq, Repr

abbrev Store := Key → Option Blob

def Store.empty : Store := fun _ => none

def Store.set (s : Store) (k : Key) (b : Blob) : Store := fun k' => if k' = k then some b else s k'

/-- how the k-th storage operation goes wrong -/
inductive Mode
  | crashBefore   -- process dies, the operation had no effect
  | crashAfter    -- process dies, the operation had taken effect
  | failBefore    -- the operation returns an error and had no effect
  | failAfter     -- the operation returns an error although it took effect
deriving DecidableEq, Repr

structure Fault where
  idx : Nat       -- 1-based index among the storage operations of one start-up
  mode : Mode
deriving DecidableEq, Repr

inductive OpRec
  | load (k : Key)
  | store (k : Key) (b : Blob)
deriving DecidableEq, Repr

/-- one process: the storage it talks to, the key-generation counter, and how many storage
    operations it has attempted (with their log) -/
structure Sys where
  store : Store
  fresh : Nat
  nops : Nat
  log : List OpRec

def Sys.tick (y : Sys) (o : OpRec) : Sys := { y with nops := y.nops + 1, log := y.log ++ [o] }
def Sys.put (y : Sys) (k : Key) (b : Blob) : Sys := { y with store := y.store.set k b }
def Sys.bump (y : Sys) : Sys := { y with fresh := y.fresh + 1 }

/-- the error prefixes of ca.go -/
inductive Err
  | loadRootCert | genRoot | parseRootCert | loadRootKey | decodeRootKey
  | loadIntCert | genInt | decodeIntCert | loadIntKey | decodeIntKey
deriving DecidableEq, Repr

inductive Res (α : Type)
  | ok (a : α) (y : Sys)
  | err (e : Err) (y : Sys)
  | crash (y : Sys)

def Res.sys : Res α → Sys
  | .ok _ y => y
  | .err _ y => y
  | .crash y => y

inductive Prog (α : Type) : Type
  | ret (a : α) : Prog α
  | fail (e : Err) : Prog α
  /-- `storage.Load(k)`: `cont none` on `fs.ErrNotExist`, `onErr` on any other error -/
  | load (k : Key) (onErr : Prog α) (cont : Option Blob → Prog α) : Prog α
  /-- `storage.Store(k, b)` -/
  | store (k : Key) (b : Blob) (onErr : Prog α) (cont : Prog α) : Prog α
  /-- `keyutil.GenerateDefaultSigner()` -/
  | fresh (cont : Nat → Prog α) : Prog α

def Prog.bind : Prog α → (α → Prog β) → Prog β
  | .ret a, g => g a
  | .fail e, _ => .fail e
  | .load k onErr cont, g => .load k (onErr.bind g) (fun r => (cont r).bind g)
  | .store k b onErr cont, g => .store k b (onErr.bind g) (cont.bind g)
  | .fresh cont, g => .fresh (fun n => (cont n).bind g)

/-- does the fault fire at the operation that follows `n` completed ones? -/
def fires (f : Option Fault) (n : Nat) : Option Mode :=
  match f with
  | none => none
  | some ft => if ft.idx = n + 1 then some ft.mode else none

def exec (f : Option Fault) : Prog α → Sys → Res α
  | .ret a, y => .ok a y
  | .fail e, y => .err e y
  | .load k onErr cont, y =>
    match fires f y.nops with
    | none => exec f (cont (y.store k)) (y.tick (.load k))
    | some .crashBefore => .crash (y.tick (.load k))
    | some .crashAfter => .crash (y.tick (.load k))
    | some .failBefore => exec f onErr (y.tick (.load k))
    | some .failAfter => exec f onErr (y.tick (.load k))
  | .store k b onErr cont, y =>
    match fires f y.nops with
    | none => exec f cont ((y.tick (.store k b)).put k b)
    | some .crashBefore => .crash (y.tick (.store k b))
    | some .crashAfter => .crash ((y.tick (.store k b)).put k b)
    | some .failBefore => exec f onErr (y.tick (.store k b))
    | some .failAfter => exec f onErr ((y.tick (.store k b)).put k b)
  | .fresh cont, y => exec f (cont y.fresh) y.bump

/-! ## Part 1 — the CA code -/

/-- which of the two `Store` calls of genRoot / genIntermediate comes first -/
inductive Order
  | keyFirst            -- the tree as it is now (ca.go genRoot / genIntermediate store the key first;
                        -- loadOrGenIntermediate checks that the loaded key belongs to the certificate)
  | keyFirstUnchecked   -- key first, the loaded intermediate pair is trusted as it is (before that check)
  | certFirst           -- certificate first, pair trusted (before commit e2c52cb)
deriving DecidableEq, Repr

/-- does `loadOrGenIntermediate` compare the loaded key with the loaded certificate? -/
def Order.checksPair : Order → Bool
  | .keyFirst => true
  | _ => false

/-- the order in the current tree -/
def codeOrder : Order := .keyFirst

/-- a certificate and its signer as held in memory -/
structure Pair where
  pub : Nat
  signer : Nat
  renewAt : Nat
  keyId : Nat
deriving DecidableEq, Repr

def Pair.crt (p : Pair) : Blob := .cert p.pub p.signer p.renewAt
def Pair.key (p : Pair) : Blob := .key p.keyId

/-- `defaultRootLifetime` (root renewal is not implemented: its window is only logged) -/
def rootLife : Nat := 1000000000

/-- the two `ca.storage.Store` calls -/
def storePair (ord : Order) (kKey kCrt : Key) (p : Pair) (e : Err) : Prog Pair :=
  match ord with
  | .keyFirst => .store kKey p.key (.fail e) (.store kCrt p.crt (.fail e) (.ret p))
  | .keyFirstUnchecked => .store kKey p.key (.fail e) (.store kCrt p.crt (.fail e) (.ret p))
  | .certFirst => .store kCrt p.crt (.fail e) (.store kKey p.key (.fail e) (.ret p))

/-- `genRoot` -/
def genRoot (ord : Order) (now : Nat) : Prog Pair :=
  .fresh fun n => storePair ord .rootKey .rootCrt ⟨n, n, now + rootLife, n⟩ .genRoot

/-- `loadOrGenRoot` -/
def loadOrGenRoot (ord : Order) (now : Nat) : Prog Pair :=
  .load .rootCrt (.fail .loadRootCert) fun r =>
    match r with
    | none => genRoot ord now
    | some (.key _) => .fail .parseRootCert
    | some (.cert p s ra) =>
      .load .rootKey (.fail .loadRootKey) fun rk =>
        match rk with
        | none => .fail .loadRootKey
        | some (.cert _ _ _) => .fail .decodeRootKey
        | some (.key id) => .ret ⟨p, s, ra, id⟩

/-- `genIntermediate`; `x509.CreateCertificate` refuses a signer that does not belong to the
    parent certificate -/
def genInt (ord : Order) (now life : Nat) (root : Pair) (e : Err) : Prog Pair :=
  .fresh fun n =>
    if root.pub = root.keyId then
      storePair ord .intKey .intCrt ⟨n, root.keyId, now + life, n⟩ e
    else .fail e

/-- `loadOrGenIntermediate` -/
def loadOrGenInt (ord : Order) (now life : Nat) (root : Pair) : Prog Pair :=
  .load .intCrt (.fail .loadIntCert) fun r =>
    match r with
    | none => genInt ord now life root .genInt
    | some (.key _) => .fail .decodeIntCert
    | some (.cert p s ra) =>
      .load .intKey (.fail .loadIntKey) fun ik =>
        match ik with
        | none => .fail .loadIntKey
        | some (.cert _ _ _) => .fail .decodeIntKey
        | some (.key id) =>
          -- a key that does not belong to the certificate (an interrupted or half-failed
          -- renewal leaves one) is not used: the intermediate is generated anew
          if ord.checksPair && id != p then genInt ord now life root .genInt
          else .ret ⟨p, s, ra, id⟩

/-- per start-up parameters: the clock, and the configured intermediate lifetime minus the
    renewal window (`0` = a certificate that is inside its window as soon as it exists) -/
structure Cfg where
  now : Nat
  life : Nat
deriving DecidableEq, Repr

/-- `ca.root`, `ca.inter`, `ca.interKey` -/
structure Mem where
  root : Pair
  inter : Pair
deriving DecidableEq, Repr

/-- `(*CA).Provision` -/
def provision (ord : Order) (c : Cfg) : Prog Mem :=
  (loadOrGenRoot ord c.now).bind fun root =>
    (loadOrGenInt ord c.now c.life root).bind fun inter => .ret ⟨root, inter⟩

/-- `needsRenewal` -/
def due (p : Pair) (now : Nat) : Bool := decide (p.renewAt ≤ now)

/-- replace every error exit of a program by "log it and carry on with `a`" -/
def Prog.orElse (a : α) : Prog α → Prog α
  | .ret x => .ret x
  | .fail _ => .ret a
  | .load k onErr cont => .load k (onErr.orElse a) (fun r => (cont r).orElse a)
  | .store k b onErr cont => .store k b (onErr.orElse a) (cont.orElse a)
  | .fresh cont => .fresh (fun n => (cont n).orElse a)

/-- `renewCertsForCA` as called from `(*PKI).Start`: errors are logged only -/
def renew (ord : Order) (c : Cfg) (m : Mem) : Prog Mem :=
  if due m.inter c.now then
    ((loadOrGenRoot ord c.now).bind fun root =>
      (genInt ord c.now c.life root .genInt).bind fun inter => .ret { m with inter := inter }).orElse m
  else .ret m

/-- one start-up of the PKI app -/
def startup (ord : Order) (c : Cfg) : Prog Mem :=
  (provision ord c).bind fun m => renew ord c m

/-! ## Part 1 — histories of interrupted start-ups -/

structure Event where
  cfg : Cfg
  fault : Option Fault
deriving DecidableEq, Repr

/-- what survives a process -/
structure Disk where
  store : Store
  fresh : Nat

def Disk.empty : Disk := ⟨Store.empty, 0⟩

def boot (d : Disk) : Sys := ⟨d.store, d.fresh, 0, []⟩

def Event.run (ord : Order) (e : Event) (d : Disk) : Res Mem := exec e.fault (startup ord e.cfg) (boot d)

def Event.after (ord : Order) (e : Event) (d : Disk) : Disk :=
  ⟨(e.run ord d).sys.store, (e.run ord d).sys.fresh⟩

def runHist (ord : Order) : List Event → Disk → Disk
  | [], d => d
  | e :: es, d => runHist ord es (e.after ord d)

/-- the clock never runs backwards -/
def Monotone (t : Nat) : List Event → Prop
  | [] => True
  | e :: es => t ≤ e.cfg.now ∧ Monotone e.cfg.now es

def lastTime (t : Nat) : List Event → Nat
  | [] => t
  | e :: es => lastTime e.cfg.now es

/-! ## Part 1 — a process that keeps running: renewal at run time

`maintenance()` (maintain.go) calls `renewCerts` every 10 minutes in the process a start-up left
running, with that process's configured lifetime and ITS IN-MEMORY certificates — which are not
re-read from storage. -/

/-- one pass of `renewCerts` in a running process -/
def tickRun (ord : Order) (now : Nat) (f : Option Fault) (life : Nat) (m : Mem) (d : Disk) : Res Mem :=
  exec f (renew ord ⟨now, life⟩ m) (boot d)

inductive Step
  | start (e : Event)                        -- the running process (if any) is gone; a new one starts
  | tick (now : Nat) (fault : Option Fault)  -- the running process (if any) runs one maintenance pass
deriving DecidableEq, Repr

def Step.now : Step → Nat
  | .start e => e.cfg.now
  | .tick n _ => n

def Res.disk (r : Res α) : Disk := ⟨r.sys.store, r.sys.fresh⟩

def Res.mem? : Res Mem → Option Mem
  | .ok m _ => some m
  | _ => none

/-- the storage, and the memory + configured intermediate lifetime of the running process -/
structure World where
  disk : Disk
  proc : Option (Mem × Nat)

def World.empty : World := ⟨Disk.empty, none⟩

def World.step (ord : Order) : Step → World → World
  | .start e, w => ⟨(e.run ord w.disk).disk, ((e.run ord w.disk).mem?).map fun m => (m, e.cfg.life)⟩
  | .tick now f, w =>
    match w.proc with
    | none => w
    | some (m, life) =>
      ⟨(tickRun ord now f life m w.disk).disk, ((tickRun ord now f life m w.disk).mem?).map fun m' => (m', life)⟩

def runSteps (ord : Order) : List Step → World → World
  | [], w => w
  | st :: sts, w => runSteps ord sts (w.step ord st)

def StepsMonotone (t : Nat) : List Step → Prop
  | [] => True
  | st :: sts => t ≤ st.now ∧ StepsMonotone st.now sts

def lastStepTime (t : Nat) : List Step → Nat
  | [] => t
  | st :: sts => lastStepTime st.now sts

/-- the intermediate certificate the running process holds is the stored one -/
def World.synced (w : World) : Prop :=
  match w.proc with
  | none => True
  | some (m, _) => w.disk.store .intCrt = some m.inter.crt

/-- … at every maintenance pass of the history -/
def SyncedAtTicks (ord : Order) : List Step → World → Prop
  | [], _ => True
  | .start e :: sts, w => SyncedAtTicks ord sts (w.step ord (.start e))
  | .tick n f :: sts, w => w.synced ∧ SyncedAtTicks ord sts (w.step ord (.tick n f))

/-! ## Part 2 — config autosave -/

inductive File
  | path   -- caddy.ConfigAutosavePath
  | tmp    -- ConfigAutosavePath + ".tmp"
deriving DecidableEq, Repr

structure FS where
  path : Option Bytes
  tmp : Option Bytes
deriving DecidableEq, Repr

def FS.get (fs : FS) : File → Option Bytes
  | .path => fs.path
  | .tmp => fs.tmp

def FS.set (fs : FS) (f : File) (c : Option Bytes) : FS :=
  match f with
  | .path => { fs with path := c }
  | .tmp => { fs with tmp := c }

inductive FOp
  | creat (f : File)                  -- open(O_WRONLY|O_CREATE|O_TRUNC): an existing file — e.g. the
                                      -- temp file a killed process left behind — is emptied and reused
  | creatExcl (f : File)              -- open(O_WRONLY|O_CREATE|O_EXCL): refused if the file exists
  | write (f : File) (data : Bytes)   -- write to the descriptor just opened
  | rename (src dst : File)
deriving DecidableEq, Repr

/-- the operation fails by itself (no injected fault): `O_EXCL` on a file that exists -/
def FOp.refused : FOp → FS → Bool
  | .creatExcl f, fs => (fs.get f).isSome
  | _, _ => false

def FOp.apply : FOp → FS → FS
  | .creat f, fs => fs.set f (some [])
  | .creatExcl f, fs => if (fs.get f).isSome then fs else fs.set f (some [])
  | .write f d, fs =>
    match fs.get f with
    | some c => fs.set f (some (c ++ d))
    | none => fs
  | .rename a b, fs =>
    match fs.get a with
    | some c => (fs.set b (some c)).set a none
    | none => fs

/-- every state the file system goes through while one operation executes (a write may be
    torn after any number of bytes) -/
def FOp.during : FOp → FS → List FS
  | .write f d, fs => (List.range (d.length + 1)).map fun n => FOp.apply (.write f (d.take n)) fs
  | _, _ => []

inductive Style
  | tmpRename   -- the tree as it is now (caddy.go:379-386)
  | inPlace     -- `os.WriteFile(ConfigAutosavePath, …)`, before commit 5246ab3
  | tmpExcl     -- NOT in the tree: the fixed-name temp file opened with O_EXCL (a plausible
                -- "improvement"; see Witness.autosave_excl_fails)
deriving DecidableEq, Repr

def codeStyle : Style := .tmpRename

/-- the file operations of one autosave -/
def autosaveOps : Style → Bytes → List FOp
  | .tmpRename, cfg => [.creat .tmp, .write .tmp cfg, .rename .tmp .path]
  | .inPlace, cfg => [.creat .path, .write .path cfg]
  | .tmpExcl, cfg => [.creatExcl .tmp, .write .tmp cfg, .rename .tmp .path]

inductive FMode
  | killBefore | killAfter
  | killTorn (n : Nat)     -- dies after `n` bytes of a write reached the file
  | failBefore | failAfter
  | failTorn (n : Nat)     -- short write, then an error
deriving DecidableEq, Repr

structure FFault where
  idx : Nat
  mode : FMode
deriving DecidableEq, Repr

inductive Status
  | done | failed | killed
deriving DecidableEq, Repr

/-- a write torn after `n` bytes; every other operation is atomic -/
def FOp.torn (n : Nat) : FOp → FS → FS
  | .write f d, fs => FOp.apply (.write f (d.take n)) fs
  | _, fs => fs

structure OpsOut where
  fs : FS
  status : Status
  log : List FOp          -- operations attempted
  seen : List FS          -- every file-system state that existed at some instant

def ffires (ft : Option FFault) (i : Nat) : Option FMode :=
  match ft with
  | none => none
  | some f => if f.idx = i + 1 then some f.mode else none

/-- run the operations in order; the first error abandons the rest (`if err == nil { … }`) -/
def runOps (ft : Option FFault) : List FOp → Nat → FS → OpsOut
  | [], _, fs => ⟨fs, .done, [], [fs]⟩
  | op :: rest, i, fs =>
    match ffires ft i with
    | none =>
      if op.refused fs then ⟨fs, .failed, [op], [fs]⟩ else
      ⟨(runOps ft rest (i + 1) (op.apply fs)).fs, (runOps ft rest (i + 1) (op.apply fs)).status,
       op :: (runOps ft rest (i + 1) (op.apply fs)).log,
       fs :: op.during fs ++ (runOps ft rest (i + 1) (op.apply fs)).seen⟩
    | some .killBefore => ⟨fs, .killed, [op], [fs]⟩
    | some .killAfter => ⟨op.apply fs, .killed, [op], fs :: op.during fs ++ [op.apply fs]⟩
    | some (.killTorn n) => ⟨op.torn n fs, .killed, [op], fs :: op.during fs ++ [op.torn n fs]⟩
    | some .failBefore => ⟨fs, .failed, [op], [fs]⟩
    | some .failAfter => ⟨op.apply fs, .failed, [op], fs :: op.during fs ++ [op.apply fs]⟩
    | some (.failTorn n) => ⟨op.torn n fs, .failed, [op], fs :: op.during fs ++ [op.torn n fs]⟩

/-- one call of `changeConfig` → `unsyncedDecodeAndRun` as far as autosave is concerned -/
structure Load where
  cfg : Bytes            -- the new whole config, re-encoded (`newCfg` in changeConfig)
  force : Bool           -- forceReload
  accepted : Bool        -- decoding and `run` succeeded: the config is now the running one
  nonNil : Bool          -- `newCfg != nil`
  persistCfg : Bool      -- `admin.config.persist` absent or true
  allowPersist : Bool    -- always true in this tree (changeConfig is the only caller)
deriving DecidableEq, Repr

def Load.persists (l : Load) : Bool := l.allowPersist && l.nonNil && l.persistCfg

inductive LRes
  | ok | same | rejected | killed
deriving DecidableEq, Repr

/-- `cur` = `rawCfgJSON` of the running process (lost at a restart) -/
structure AState where
  cur : Option Bytes
  fs : FS
deriving DecidableEq, Repr

structure LoadOut where
  res : LRes
  st : AState
  log : List FOp
  seen : List FS

def sameCfg (l : Load) (a : AState) : Bool := !l.force && a.cur == some l.cfg

def loadStep (sty : Style) (l : Load) (ft : Option FFault) (a : AState) : LoadOut :=
  if sameCfg l a then ⟨.same, a, [], [a.fs]⟩
  else if !l.accepted then ⟨.rejected, a, [], [a.fs]⟩
  else if l.persists then
    match (runOps ft (autosaveOps sty l.cfg) 0 a.fs).status with
    | .killed => ⟨.killed, ⟨none, (runOps ft (autosaveOps sty l.cfg) 0 a.fs).fs⟩,
                  (runOps ft (autosaveOps sty l.cfg) 0 a.fs).log, (runOps ft (autosaveOps sty l.cfg) 0 a.fs).seen⟩
    | _ => ⟨.ok, ⟨some l.cfg, (runOps ft (autosaveOps sty l.cfg) 0 a.fs).fs⟩,
             (runOps ft (autosaveOps sty l.cfg) 0 a.fs).log, (runOps ft (autosaveOps sty l.cfg) 0 a.fs).seen⟩
  else ⟨.ok, { a with cur := some l.cfg }, [], [a.fs]⟩

inductive AEvent
  | load (l : Load) (ft : Option FFault)
  | restart
deriving DecidableEq, Repr

def AEvent.step (sty : Style) : AEvent → AState → AState
  | .load l ft, a => (loadStep sty l ft a).st
  | .restart, a => { a with cur := none }

def AEvent.seen (sty : Style) : AEvent → AState → List FS
  | .load l ft, a => (loadStep sty l ft a).seen
  | .restart, a => [a.fs]

def runLoads (sty : Style) : List AEvent → AState → AState
  | [], a => a
  | e :: es, a => runLoads sty es (e.step sty a)

/-- `caddy run --resume` reads the autosave file -/
def resumeConfig (a : AState) : Option Bytes := a.fs.path

/-- every file-system state that exists at some instant of the history -/
def seenHist (sty : Style) : List AEvent → AState → List FS
  | [], a => [a.fs]
  | e :: es, a => e.seen sty a ++ seenHist sty es (e.step sty a)

/-- the configs whose load was accepted (they were running when they were written) -/
def acceptedIn (sty : Style) : List AEvent → AState → List Bytes
  | [], _ => []
  | .load l ft :: es, a =>
    if !sameCfg l a && l.accepted then l.cfg :: acceptedIn sty es ((AEvent.load l ft).step sty a)
    else acceptedIn sty es ((AEvent.load l ft).step sty a)
  | .restart :: es, a => acceptedIn sty es (AEvent.restart.step sty a)

end CaddyModel.C14
