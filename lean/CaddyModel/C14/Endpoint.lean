/-
C14 — how configs are PUSHED: `POST /load` (caddyconfig/load.go adminLoad.handleLoad).

The handler reads the whole body; if a Content-Type header is present the body goes through
`adaptByContentType` (no header / `…/json`: unchanged; `…/<adapter>`: the registered config adapter
of that name, e.g. `text/caddyfile`; anything else, or an adapter error: 400 and `caddy.Load` is
never called); then `forceReload := r.Header.Get("Cache-Control") == "must-revalidate"` (string
EQUALITY — `no-cache, must-revalidate` does not force) and `caddy.Load(body, forceReload)`.
What reaches `changeConfig` — and so the autosave file — is the ADAPTED document, never the body.

`adapt` (the adapter) and `mk` (what loading a JSON document means: accepted or not, its persistence
flag) are parameters of the theorems; the driver instantiates them with the token protocol.
-/
import CaddyModel.C14.Resume

namespace CaddyModel.C14

/-- the `Cache-Control` request header as the handler sees it -/
inductive CacheControl
  | absent
  | mustRevalidate     -- exactly `must-revalidate`
  | other              -- any other value, including lists that CONTAIN must-revalidate
deriving DecidableEq, Repr

/-- the `Content-Type` request header after `mime.ParseMediaType` -/
inductive ContentType
  | absent                     -- no header: "assume JSON as the default"
  | json                       -- `…/json`
  | adapter (known : Bool)     -- `…/<name>`: `GetAdapter(name)` found / nil
  | malformed                  -- unparsable, or no slash
deriving DecidableEq, Repr

structure LoadReq where
  post : Bool
  ctype : ContentType
  cache : CacheControl
  body : Bytes
deriving DecidableEq, Repr

/-- the comparison the handler makes: `== "must-revalidate"` -/
def forceOf : CacheControl → Bool
  | .mustRevalidate => true
  | _ => false

/-- `adaptByContentType`: `none` = an error (400) -/
def adaptByContentType (adapt : Bytes → Option Bytes) : ContentType → Bytes → Option Bytes
  | .absent, b => some b
  | .json, b => some b
  | .adapter true, b => adapt b
  | .adapter false, _ => none
  | .malformed, _ => none

inductive EPRes
  | methodNotAllowed                -- 405
  | badRequest                      -- 400 before `caddy.Load`
  | load (l : Load)                 -- `caddy.Load(body, forceReload)`
deriving DecidableEq, Repr

/-- `handleLoad` up to its `caddy.Load` call -/
def handleLoad (adapt : Bytes → Option Bytes) (mk : Bytes → Bool → Load) (r : LoadReq) : EPRes :=
  if !r.post then .methodNotAllowed
  else
    match adaptByContentType adapt r.ctype r.body with
    | none => .badRequest
    | some b => .load (mk b (forceOf r.cache))

/-- one request on the running process -/
def endpointStep (adapt : Bytes → Option Bytes) (mk : Bytes → Bool → Load) (r : LoadReq) (a : AState) : LoadOut :=
  match handleLoad adapt mk r with
  | .load l => loadStep codeStyle l none a
  | _ => ⟨.rejected, a, [], [a.fs]⟩

/-- `mk` describes loading the bytes it is given with the force flag it is given -/
def FaithfulMk (mk : Bytes → Bool → Load) : Prop :=
  ∀ b f, (mk b f).cfg = b ∧ (mk b f).force = f

/-- the names the extractor must find in `handleLoad` for this model to be the code -/
def codeForceHeader : String := "Cache-Control"
def codeForceValue : String := "must-revalidate"
def codeForceCompare : String := "=="
def codeLoadArgs : List String := ["body", "forceReload"]
def codeBodyAssigns : List String := ["buf.Bytes()", "result"]

end CaddyModel.C14
