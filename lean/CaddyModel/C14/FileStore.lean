/-
C14 — certmagic.FileStorage under the storage interface of Model.lean.

`(*FileStorage).Store` (certmagic filestorage.go + internal/atomicfile) is NOT one operation:

    MkdirAll(dir)                                   (the directory exists in every case here)
    f := os.CreateTemp(dir, "")                     a fresh random name IN THE KEY'S DIRECTORY
    f.Chmod(0600)                                   on error: return it (the temp file stays)
    f.Write(value)                                  on error: Cancel = close, remove temp
    f.Sync(); f.Close(); os.Rename(temp, filename)  on error of any: remove temp, return it

`(*FileStorage).Load` is `os.ReadFile(filename)`.

A directory is the key files plus the temp files; a file's content is a whole value, a torn
prefix of one, or empty.  `execFS` runs the SAME programs as `exec` (Model.lean) but every
`store` goes through the six file operations above, and the injected fault — process killed or
operation fails, before / after / in the middle of its effect — hits ONE FILE OPERATION.
`view` is what the storage interface shows of a directory.  Props.lean proves that `execFS`
under any such fault is simulated by `exec` under one of the four abstract fault modes
(so every CA theorem holds on the real write protocol), which is where the assumption
"a Store is atomic per key" of the first rounds is discharged for this storage.
-/
import CaddyModel.C14.Model

namespace CaddyModel.C14

/-- what a file holds -/
inductive FContent
  | empty
  | part (b : Blob) (n : Nat)   -- the first `n` bytes of the encoding of `b`, not all of them
  | whole (b : Blob)
deriving DecidableEq, Repr

structure Dir where
  keys : Key → Option FContent    -- <root>/pki/authorities/<id>/{root,intermediate}.{crt,key}
  tmps : Nat → Option FContent    -- the files `os.CreateTemp` made in that directory
  nextTmp : Nat                   -- names already used (CreateTemp retries until the name is free)

def Dir.empty : Dir := ⟨fun _ => none, fun _ => none, 0⟩

/-- what `Load` returns for a key file -/
def contentBlob : Option FContent → Option Blob
  | some (.whole b) => some b
  | _ => none

/-- the storage-interface view of a directory -/
def view (d : Dir) : Store := fun k => contentBlob (d.keys k)

/-- every key file holds a whole value (what makes `view` faithful: `Load` never sees a torn file) -/
def KeysWhole (d : Dir) : Prop := ∀ k c, d.keys k = some c → ∃ b, c = .whole b

inductive DOp
  | creatTemp (n : Nat)            -- openat(dir/<random>, O_RDWR|O_CREAT|O_EXCL)
  | chmod (n : Nat)                -- fchmod
  | write (n : Nat) (b : Blob)     -- write(fd, PEM)
  | sync (n : Nat)                 -- fsync
  | close (n : Nat)
  | rename (n : Nat) (k : Key)     -- renameat(temp, key file)
  | remove (n : Nat)               -- unlinkat(temp): the clean-up after a reported error
  | read (k : Key)                 -- os.ReadFile(key file) (its openat); changes nothing
  | writeKey (k : Key) (b : Blob)  -- NOT in FileStorage: a storage that writes the key file in place
  | truncKey (k : Key)             --   (open O_TRUNC, then write) — see `inPlace_store_not_atomic`
deriving DecidableEq, Repr

def Dir.setTmp (d : Dir) (n : Nat) (c : Option FContent) : Dir :=
  { d with tmps := fun n' => if n' = n then c else d.tmps n' }

def Dir.setKey (d : Dir) (k : Key) (c : Option FContent) : Dir :=
  { d with keys := fun k' => if k' = k then c else d.keys k' }

def DOp.apply : DOp → Dir → Dir
  | .creatTemp n, d => { (d.setTmp n (some .empty)) with nextTmp := d.nextTmp + 1 }
  | .chmod _, d => d
  | .write n b, d => d.setTmp n (some (.whole b))
  | .sync _, d => d
  | .close _, d => d
  | .rename n k, d => (d.setKey k (d.tmps n)).setTmp n none
  | .remove n, d => d.setTmp n none
  | .read _, d => d
  | .writeKey k b, d => d.setKey k (some (.whole b))
  | .truncKey k, d => d.setKey k (some .empty)

/-- the operation interrupted in the middle: only a write has a middle -/
def DOp.torn (m : Nat) : DOp → Dir → Dir
  | .write n b, d => d.setTmp n (some (.part b m))
  | .writeKey k b, d => d.setKey k (some (.part b m))
  | _, d => d

/-- the six operations of `FileStorage.Store` with temp name `n` -/
def fileStoreOps (n : Nat) (k : Key) (b : Blob) : List DOp :=
  [.creatTemp n, .chmod n, .write n b, .sync n, .close n, .rename n k]

/-- what the code does when an operation reports an error -/
def DOp.cleanup : DOp → List DOp
  | .creatTemp _ => []          -- nothing was created (as far as the code knows)
  | .chmod _ => []              -- atomicfile.newFile returns the error; the temp file stays
  | .write n _ => [.close n, .remove n]   -- Cancel(): close, then remove
  | .sync n => [.remove n]      -- (the descriptor is not closed on this path)
  | .close n => [.remove n]
  | .rename n _ => [.remove n]
  | _ => []

structure DOut where
  dir : Dir
  status : Status
  log : List DOp      -- operations attempted, clean-up included
  nops : Nat          -- the operation counter afterwards

/-- run file operations in order from counter `i`; the first reported error abandons the rest
    and runs the clean-up; a kill ends everything -/
def runDOps (ff : Option FFault) : List DOp → Nat → Dir → DOut
  | [], i, d => ⟨d, .done, [], i⟩
  | op :: rest, i, d =>
    match ffires ff i with
    | none =>
      ⟨(runDOps ff rest (i + 1) (op.apply d)).dir, (runDOps ff rest (i + 1) (op.apply d)).status,
       op :: (runDOps ff rest (i + 1) (op.apply d)).log, (runDOps ff rest (i + 1) (op.apply d)).nops⟩
    | some .killBefore => ⟨d, .killed, [op], i + 1⟩
    | some .killAfter => ⟨op.apply d, .killed, [op], i + 1⟩
    | some (.killTorn m) => ⟨op.torn m d, .killed, [op], i + 1⟩
    | some .failBefore => ⟨op.cleanup.foldl (fun d' c => c.apply d') d, .failed, op :: op.cleanup, i + 1 + op.cleanup.length⟩
    | some .failAfter =>
      ⟨op.cleanup.foldl (fun d' c => c.apply d') (op.apply d), .failed, op :: op.cleanup, i + 1 + op.cleanup.length⟩
    | some (.failTorn m) =>
      ⟨op.cleanup.foldl (fun d' c => c.apply d') (op.torn m d), .failed, op :: op.cleanup, i + 1 + op.cleanup.length⟩

/-- one process talking to a directory -/
structure FSys where
  dir : Dir
  fresh : Nat
  nops : Nat
  log : List DOp

inductive FRes (α : Type)
  | ok (a : α) (y : FSys)
  | err (e : Err) (y : FSys)
  | crash (y : FSys)

def FRes.sys : FRes α → FSys
  | .ok _ y => y
  | .err _ y => y
  | .crash y => y

/-- `os.ReadFile(key file)` as one operation (its `openat`); it changes nothing -/
inductive ReadOut
  | value (v : Option Blob)
  | failed
  | killed

def loadFile (ff : Option FFault) (k : Key) (y : FSys) : ReadOut :=
  match ffires ff y.nops with
  | none => .value (view y.dir k)
  | some .killBefore => .killed
  | some .killAfter => .killed
  | some (.killTorn _) => .killed
  | _ => .failed

/-- the programs of Model.lean on a directory through FileStorage -/
def execFS (ff : Option FFault) : Prog α → FSys → FRes α
  | .ret a, y => .ok a y
  | .fail e, y => .err e y
  | .load k onErr cont, y =>
    match loadFile ff k y with
    | .value v => execFS ff (cont v) { y with nops := y.nops + 1, log := y.log ++ [.read k] }
    | .failed => execFS ff onErr { y with nops := y.nops + 1, log := y.log ++ [.read k] }
    | .killed => .crash { y with nops := y.nops + 1, log := y.log ++ [.read k] }
  | .store k b onErr cont, y =>
    match (runDOps ff (fileStoreOps y.dir.nextTmp k b) y.nops y.dir).status with
    | .done =>
      execFS ff cont
        { y with dir := (runDOps ff (fileStoreOps y.dir.nextTmp k b) y.nops y.dir).dir
                 nops := (runDOps ff (fileStoreOps y.dir.nextTmp k b) y.nops y.dir).nops
                 log := y.log ++ (runDOps ff (fileStoreOps y.dir.nextTmp k b) y.nops y.dir).log }
    | .failed =>
      execFS ff onErr
        { y with dir := (runDOps ff (fileStoreOps y.dir.nextTmp k b) y.nops y.dir).dir
                 nops := (runDOps ff (fileStoreOps y.dir.nextTmp k b) y.nops y.dir).nops
                 log := y.log ++ (runDOps ff (fileStoreOps y.dir.nextTmp k b) y.nops y.dir).log }
    | .killed =>
      .crash
        { y with dir := (runDOps ff (fileStoreOps y.dir.nextTmp k b) y.nops y.dir).dir
                 nops := (runDOps ff (fileStoreOps y.dir.nextTmp k b) y.nops y.dir).nops
                 log := y.log ++ (runDOps ff (fileStoreOps y.dir.nextTmp k b) y.nops y.dir).log }
  | .fresh cont, y => execFS ff (cont y.fresh) { y with fresh := y.fresh + 1 }

/-- what survives a process: the directory (and the ghost key counter) -/
structure FDisk where
  dir : Dir
  fresh : Nat

def FDisk.empty : FDisk := ⟨Dir.empty, 0⟩

def bootFS (d : FDisk) : FSys := ⟨d.dir, d.fresh, 0, []⟩

/-- a start-up over FileStorage with at most one fault at one FILE operation -/
structure FEvent where
  cfg : Cfg
  fault : Option FFault
deriving DecidableEq, Repr

def FEvent.run (ord : Order) (e : FEvent) (d : FDisk) : FRes Mem := execFS e.fault (startup ord e.cfg) (bootFS d)

def FEvent.after (ord : Order) (e : FEvent) (d : FDisk) : FDisk :=
  ⟨(e.run ord d).sys.dir, (e.run ord d).sys.fresh⟩

def runFSHist (ord : Order) : List FEvent → FDisk → FDisk
  | [], d => d
  | e :: es, d => runFSHist ord es (e.after ord d)

/-- NOT FileStorage: a storage that writes the key file in place (truncate, write) -/
def inPlaceStoreOps (k : Key) (b : Blob) : List DOp := [.truncKey k, .writeKey k b]

end CaddyModel.C14
