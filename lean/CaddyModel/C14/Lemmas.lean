/-
C14 — helper lemmas.

`wp` is a weakest-precondition calculus over `Prog` with THREE postconditions: `Q` when the
program returns, `E` when it exits with an error, `C` at every point at which the process can
die — before and after the effect of every storage operation.  `wp_sound` proves it sound
against `exec` for every fault (index and mode) at once; `wpn` is the fault-free calculus
(`exec none`).  Everything about "all crash points and fault placements" in Props.lean is
obtained from these two theorems.
-/
import CaddyModel.C14.Spec

namespace CaddyModel.C14

/-! ### the calculus -/

def Res.Holds (Q : α → Store → Nat → Prop) (E : Store → Nat → Prop) (C : Store → Prop) : Res α → Prop
  | .ok a y => Q a y.store y.fresh
  | .err _ y => E y.store y.fresh
  | .crash y => C y.store

def wp (C : Store → Prop) (E : Store → Nat → Prop) : Prog α → (α → Store → Nat → Prop) → Store → Nat → Prop
  | .ret a, Q, s, fr => Q a s fr
  | .fail _, _, s, fr => E s fr
  | .load k onErr cont, Q, s, fr => C s ∧ wp C E onErr Q s fr ∧ wp C E (cont (s k)) Q s fr
  | .store k b onErr cont, Q, s, fr =>
      C s ∧ C (s.set k b) ∧ wp C E onErr Q s fr ∧ wp C E onErr Q (s.set k b) fr ∧ wp C E cont Q (s.set k b) fr
  | .fresh cont, Q, s, fr => wp C E (cont fr) Q s (fr + 1)

theorem wp_sound {C : Store → Prop} {E : Store → Nat → Prop} (f : Option Fault) :
    ∀ (p : Prog α) (Q : α → Store → Nat → Prop) (y : Sys),
      wp C E p Q y.store y.fresh → (exec f p y).Holds Q E C := by
  intro p
  induction p with
  | ret a => intro Q y h; exact h
  | fail e => intro Q y h; exact h
  | load k onErr cont ihE ihC =>
    intro Q y h
    obtain ⟨hc, he, hk⟩ := h
    unfold exec
    split
    · exact ihC _ Q (y.tick (.load k)) hk
    · exact hc
    · exact hc
    · exact ihE Q (y.tick (.load k)) he
    · exact ihE Q (y.tick (.load k)) he
  | store k b onErr cont ihE ihC =>
    intro Q y h
    obtain ⟨hc, hc', he, he', hk⟩ := h
    unfold exec
    split
    · exact ihC Q ((y.tick (.store k b)).put k b) hk
    · exact hc
    · exact hc'
    · exact ihE Q (y.tick (.store k b)) he
    · exact ihE Q ((y.tick (.store k b)).put k b) he'
  | fresh cont ih =>
    intro Q y h
    unfold exec
    exact ih y.fresh Q y.bump h

theorem wp_bind {C : Store → Prop} {E : Store → Nat → Prop} (g : α → Prog β) (Q : β → Store → Nat → Prop) :
    ∀ (p : Prog α) (s : Store) (fr : Nat),
      wp C E (p.bind g) Q s fr ↔ wp C E p (fun a s' fr' => wp C E (g a) Q s' fr') s fr := by
  intro p
  induction p with
  | ret a => intro s fr; exact Iff.rfl
  | fail e => intro s fr; exact Iff.rfl
  | load k onErr cont ihE ihC =>
    intro s fr
    simp only [Prog.bind, wp]
    rw [ihE, ihC]
  | store k b onErr cont ihE ihC =>
    intro s fr
    simp only [Prog.bind, wp]
    rw [ihE, ihE, ihC]
  | fresh cont ih =>
    intro s fr
    simp only [Prog.bind, wp]
    rw [ih]

theorem wp_orElse {C : Store → Prop} {E : Store → Nat → Prop} (a : α) (Q : α → Store → Nat → Prop) :
    ∀ (p : Prog α) (s : Store) (fr : Nat),
      wp C E (p.orElse a) Q s fr ↔ wp C (Q a) p Q s fr := by
  intro p
  induction p with
  | ret x => intro s fr; exact Iff.rfl
  | fail e => intro s fr; exact Iff.rfl
  | load k onErr cont ihE ihC =>
    intro s fr
    simp only [Prog.orElse, wp]
    rw [ihE, ihC]
  | store k b onErr cont ihE ihC =>
    intro s fr
    simp only [Prog.orElse, wp]
    rw [ihE, ihE, ihC]
  | fresh cont ih =>
    intro s fr
    simp only [Prog.orElse, wp]
    rw [ih]

theorem wp_mono {C : Store → Prop} {E E' : Store → Nat → Prop} {Q Q' : α → Store → Nat → Prop}
    (hE : ∀ s fr, E s fr → E' s fr) (hQ : ∀ a s fr, Q a s fr → Q' a s fr) :
    ∀ (p : Prog α) (s : Store) (fr : Nat), wp C E p Q s fr → wp C E' p Q' s fr := by
  intro p
  induction p with
  | ret a => intro s fr h; exact hQ _ _ _ h
  | fail e => intro s fr h; exact hE _ _ h
  | load k onErr cont ihE ihC =>
    intro s fr h
    exact ⟨h.1, ihE _ _ h.2.1, ihC _ _ _ h.2.2⟩
  | store k b onErr cont ihE ihC =>
    intro s fr h
    exact ⟨h.1, h.2.1, ihE _ _ h.2.2.1, ihE _ _ h.2.2.2.1, ihC _ _ h.2.2.2.2⟩
  | fresh cont ih =>
    intro s fr h
    exact ih _ _ _ h

/-! ### the fault-free calculus -/

def Res.HoldsN (Q : α → Store → Nat → Prop) (E : Err → Store → Nat → Prop) : Res α → Prop
  | .ok a y => Q a y.store y.fresh
  | .err e y => E e y.store y.fresh
  | .crash _ => False

def wpn (E : Err → Store → Nat → Prop) : Prog α → (α → Store → Nat → Prop) → Store → Nat → Prop
  | .ret a, Q, s, fr => Q a s fr
  | .fail e, _, s, fr => E e s fr
  | .load k _ cont, Q, s, fr => wpn E (cont (s k)) Q s fr
  | .store k b _ cont, Q, s, fr => wpn E cont Q (s.set k b) fr
  | .fresh cont, Q, s, fr => wpn E (cont fr) Q s (fr + 1)

theorem wpn_sound {E : Err → Store → Nat → Prop} :
    ∀ (p : Prog α) (Q : α → Store → Nat → Prop) (y : Sys),
      wpn E p Q y.store y.fresh → (exec none p y).HoldsN Q E := by
  intro p
  induction p with
  | ret a => intro Q y h; exact h
  | fail e => intro Q y h; exact h
  | load k onErr cont _ ihC =>
    intro Q y h
    unfold exec
    simp only [fires]
    exact ihC _ Q (y.tick (.load k)) h
  | store k b onErr cont _ ihC =>
    intro Q y h
    unfold exec
    simp only [fires]
    exact ihC Q ((y.tick (.store k b)).put k b) h
  | fresh cont ih =>
    intro Q y h
    unfold exec
    exact ih y.fresh Q y.bump h

theorem wpn_bind {E : Err → Store → Nat → Prop} (g : α → Prog β) (Q : β → Store → Nat → Prop) :
    ∀ (p : Prog α) (s : Store) (fr : Nat),
      wpn E (p.bind g) Q s fr ↔ wpn E p (fun a s' fr' => wpn E (g a) Q s' fr') s fr := by
  intro p
  induction p with
  | ret a => intro s fr; exact Iff.rfl
  | fail e => intro s fr; exact Iff.rfl
  | load k onErr cont _ ihC => intro s fr; simp only [Prog.bind, wpn]; rw [ihC]
  | store k b onErr cont _ ihC => intro s fr; simp only [Prog.bind, wpn]; rw [ihC]
  | fresh cont ih => intro s fr; simp only [Prog.bind, wpn]; rw [ih]

theorem wpn_orElse {E : Err → Store → Nat → Prop} (a : α) (Q : α → Store → Nat → Prop) :
    ∀ (p : Prog α) (s : Store) (fr : Nat),
      wpn E (p.orElse a) Q s fr ↔ wpn (fun _ => Q a) p Q s fr := by
  intro p
  induction p with
  | ret x => intro s fr; exact Iff.rfl
  | fail e => intro s fr; exact Iff.rfl
  | load k onErr cont _ ihC => intro s fr; simp only [Prog.orElse, wpn]; rw [ihC]
  | store k b onErr cont _ ihC => intro s fr; simp only [Prog.orElse, wpn]; rw [ihC]
  | fresh cont ih => intro s fr; simp only [Prog.orElse, wpn]; rw [ih]

theorem wpn_mono {E : Err → Store → Nat → Prop} {Q Q' : α → Store → Nat → Prop}
    (hQ : ∀ a s fr, Q a s fr → Q' a s fr) :
    ∀ (p : Prog α) (s : Store) (fr : Nat), wpn E p Q s fr → wpn E p Q' s fr := by
  intro p
  induction p with
  | ret a => intro s fr h; exact hQ _ _ _ h
  | fail e => intro s fr h; exact h
  | load k onErr cont _ ihC => intro s fr h; exact ihC _ _ _ h
  | store k b onErr cont _ ihC => intro s fr h; exact ihC _ _ h
  | fresh cont ih => intro s fr h; exact ih _ _ _ h

/-! ### stores -/

@[simp] theorem Store.set_same (s : Store) (k : Key) (b : Blob) : s.set k b k = some b := by
  simp [Store.set]

@[simp] theorem Store.set_other (s : Store) (k k' : Key) (b : Blob) (h : k' ≠ k) : s.set k b k' = s k' := by
  simp [Store.set, h]

end CaddyModel.C14

namespace CaddyModel.C14

/-! ### how the reachable-state invariant moves under the four writes of the CA code -/

theorem InvAt.mono {t t' : Nat} {s : Store} (h : InvAt t s) (_ht : t ≤ t') : InvAt t' s where
  rootKeyKind := h.rootKeyKind
  intKeyKind := h.intKeyKind
  root := h.root
  inter := h.inter

/-- the invariant does not depend on the clock -/
theorem InvAt.any {t t' : Nat} {s : Store} (h : InvAt t s) : InvAt t' s :=
  ⟨h.rootKeyKind, h.intKeyKind, h.root, h.inter⟩

theorem InvAt.empty (t : Nat) : InvAt t Store.empty where
  rootKeyKind := fun b hb => by simp [Store.empty] at hb
  intKeyKind := fun b hb => by simp [Store.empty] at hb
  root := fun b hb => by simp [Store.empty] at hb
  inter := fun b hb => by simp [Store.empty] at hb

/-- no intermediate certificate without a root certificate -/
theorem InvAt.noInt_of_noRoot {t : Nat} {s : Store} (h : InvAt t s) (hrc : s .rootCrt = none) : s .intCrt = none := by
  cases hic : s .intCrt with
  | none => rfl
  | some b =>
    obtain ⟨_, _, _, _, _, _, h2, _⟩ := h.inter b hic
    rw [hrc] at h2; cases h2

/-- genRoot, first write: a root key without a certificate -/
theorem InvAt.set_rootKey {t : Nat} {s : Store} (h : InvAt t s) (hrc : s .rootCrt = none) (n : Nat) :
    InvAt t (s.set .rootKey (.key n)) where
  rootKeyKind := fun b hb => by simp at hb; exact ⟨n, hb.symm⟩
  intKeyKind := fun b hb => by simp at hb; exact h.intKeyKind b hb
  root := fun b hb => by simp [hrc] at hb
  inter := fun b hb => by simp [h.noInt_of_noRoot hrc] at hb

/-- genRoot, second write: the certificate of the key already stored -/
theorem InvAt.set_rootCrt {t : Nat} {s : Store} (h : InvAt t s) (hrc : s .rootCrt = none) (n ra : Nat)
    (hrk : s .rootKey = some (.key n)) : InvAt t (s.set .rootCrt (.cert n n ra)) where
  rootKeyKind := fun b hb => by simp at hb; exact h.rootKeyKind b hb
  intKeyKind := fun b hb => by simp at hb; exact h.intKeyKind b hb
  root := fun b hb => by simp at hb; exact ⟨n, ra, hb.symm, by simp [hrk]⟩
  inter := fun b hb => by simp [h.noInt_of_noRoot hrc] at hb

/-- genIntermediate, first write: the key under any stored intermediate certificate may be
    replaced (the pair is checked when it is loaded) -/
theorem InvAt.set_intKey {t : Nat} {s : Store} (h : InvAt t s) (n : Nat) : InvAt t (s.set .intKey (.key n)) where
  rootKeyKind := fun b hb => by simp at hb; exact h.rootKeyKind b hb
  intKeyKind := fun b hb => by simp at hb; exact ⟨n, hb.symm⟩
  root := fun b hb => by
    simp at hb
    obtain ⟨r, ra, h1, h2⟩ := h.root b hb
    exact ⟨r, ra, h1, by simp [h2]⟩
  inter := fun b hb => by
    simp at hb
    obtain ⟨i, r, ra, rra, j, h1, h2, _⟩ := h.inter b hb
    exact ⟨i, r, ra, rra, n, h1, by simp [h2], by simp⟩

/-- genIntermediate, second write: the certificate of the key already stored, signed by the
    stored root -/
theorem InvAt.set_intCrt {t : Nat} {s : Store} (h : InvAt t s) (n r rra ra : Nat)
    (hrc : s .rootCrt = some (.cert r r rra)) (hik : s .intKey = some (.key n)) :
    InvAt t (s.set .intCrt (.cert n r ra)) where
  rootKeyKind := fun b hb => by simp at hb; exact h.rootKeyKind b hb
  intKeyKind := fun b hb => by simp at hb; exact h.intKeyKind b hb
  root := fun b hb => by
    simp at hb
    obtain ⟨r', ra', h1, h2⟩ := h.root b hb
    exact ⟨r', ra', h1, by simp [h2]⟩
  inter := fun b hb => by
    simp at hb
    exact ⟨n, r, ra, rra, n, hb.symm, by simp [hrc], by simp [hik]⟩

end CaddyModel.C14

namespace CaddyModel.C14

/-! ### summaries of the CA functions (any crash invariant `C`, error exit `E`, result `Q`) -/

section summaries
variable {C : Store → Prop} {E : Store → Nat → Prop}

/-- `loadOrGenRoot` when a root certificate is stored: nothing is written, every exit happens
    in the initial store -/
theorem wp_loadOrGenRoot_present {Q : Pair → Store → Nat → Prop} (ord : Order) (now : Nat) (s : Store) (fr : Nat)
    (b : Blob) (h : s .rootCrt = some b) (hC : C s) (hE : E s fr)
    (hQ : ∀ p sg ra id, b = .cert p sg ra → s .rootKey = some (.key id) → Q ⟨p, sg, ra, id⟩ s fr) :
    wp C E (loadOrGenRoot ord now) Q s fr := by
  unfold loadOrGenRoot
  simp only [wp, h]
  refine ⟨hC, hE, ?_⟩
  cases b with
  | key id => exact hE
  | cert p sg ra =>
    simp only [wp]
    refine ⟨hC, hE, ?_⟩
    cases hrk : s .rootKey with
    | none => exact hE
    | some rk =>
      cases rk with
      | cert _ _ _ => exact hE
      | key id => exact hQ p sg ra id rfl hrk

/-- the two writes, key first -/
theorem wp_storePair_keyFirst {Q : Pair → Store → Nat → Prop} (kK kC : Key) (p : Pair) (e : Err) (s : Store) (fr : Nat) :
    wp C E (storePair .keyFirst kK kC p e) Q s fr ↔
      C s ∧ C (s.set kK p.key) ∧ E s fr ∧ E (s.set kK p.key) fr ∧
      C ((s.set kK p.key).set kC p.crt) ∧ E ((s.set kK p.key).set kC p.crt) fr ∧
      Q p ((s.set kK p.key).set kC p.crt) fr := by
  simp only [storePair, wp]
  constructor
  · rintro ⟨h1, h2, h3, h4, _, h6, _, h8, h9⟩; exact ⟨h1, h2, h3, h4, h6, h8, h9⟩
  · rintro ⟨h1, h2, h3, h4, h5, h6, h7⟩; exact ⟨h1, h2, h3, h4, h2, h5, h4, h6, h7⟩

/-- `loadOrGenRoot` when no root certificate is stored (current order) -/
theorem wp_loadOrGenRoot_absent {Q : Pair → Store → Nat → Prop} (now : Nat) (s : Store) (fr : Nat)
    (h : s .rootCrt = none) (hC : C s) (hE : E s fr)
    (hgen : wp C E (storePair .keyFirst .rootKey .rootCrt ⟨fr, fr, now + rootLife, fr⟩ .genRoot) Q s (fr + 1)) :
    wp C E (loadOrGenRoot .keyFirst now) Q s fr := by
  unfold loadOrGenRoot
  simp only [wp, h, genRoot]
  exact ⟨hC, hE, hgen⟩

/-- `genIntermediate` with a root whose key belongs to its certificate -/
theorem wp_genInt {Q : Pair → Store → Nat → Prop} (ord : Order) (now life : Nat) (root : Pair) (e : Err) (s : Store) (fr : Nat)
    (hroot : root.pub = root.keyId)
    (hgen : wp C E (storePair ord .intKey .intCrt ⟨fr, root.keyId, now + life, fr⟩ e) Q s (fr + 1)) :
    wp C E (genInt ord now life root e) Q s fr := by
  unfold genInt
  simp only [wp, hroot, if_true]
  exact hgen

/-- `loadOrGenIntermediate` when an intermediate certificate is stored: nothing is written if
    the stored key is used (`hQ`); a revision that checks the pair regenerates on a foreign key (`hM`) -/
theorem wp_loadOrGenInt_present {Q : Pair → Store → Nat → Prop} (ord : Order) (now life : Nat) (root : Pair) (s : Store) (fr : Nat)
    (b : Blob) (h : s .intCrt = some b) (hC : C s) (hE : E s fr)
    (hQ : ∀ p sg ra id, b = .cert p sg ra → s .intKey = some (.key id) → (ord.checksPair = true → id = p) →
      Q ⟨p, sg, ra, id⟩ s fr)
    (hM : ∀ p sg ra id, b = .cert p sg ra → s .intKey = some (.key id) → ord.checksPair = true → id ≠ p →
      wp C E (genInt ord now life root .genInt) Q s fr) :
    wp C E (loadOrGenInt ord now life root) Q s fr := by
  unfold loadOrGenInt
  simp only [wp, h]
  refine ⟨hC, hE, ?_⟩
  cases b with
  | key id => exact hE
  | cert p sg ra =>
    simp only [wp]
    refine ⟨hC, hE, ?_⟩
    cases hik : s .intKey with
    | none => exact hE
    | some ik =>
      cases ik with
      | cert _ _ _ => exact hE
      | key id =>
        by_cases hc : ord.checksPair = true
        · by_cases hid : id = p
          · simp only [hc, hid, bne_self_eq_false, Bool.and_false, Bool.false_eq_true, if_false]
            exact hQ p sg ra p rfl (hid ▸ hik) (fun _ => rfl)
          · have : (id != p) = true := by simp [hid]
            simp only [hc, this, Bool.and_self, if_true]
            exact hM p sg ra id rfl hik hc hid
        · simp only [hc, Bool.false_and, Bool.false_eq_true, if_false]
          exact hQ p sg ra id rfl hik (fun h => absurd h hc)

/-- `loadOrGenIntermediate` when no intermediate certificate is stored -/
theorem wp_loadOrGenInt_absent {Q : Pair → Store → Nat → Prop} (ord : Order) (now life : Nat) (root : Pair) (s : Store) (fr : Nat)
    (h : s .intCrt = none) (hC : C s) (hE : E s fr)
    (hgen : wp C E (genInt ord now life root .genInt) Q s fr) :
    wp C E (loadOrGenInt ord now life root) Q s fr := by
  unfold loadOrGenInt
  simp only [wp, h]
  exact ⟨hC, hE, hgen⟩

end summaries

end CaddyModel.C14

namespace CaddyModel.C14

/-! ### the three phases of a start-up under the reachable-state invariant -/

/-- after `loadOrGenRoot` returned: a complete, self-signed root is stored and in hand -/
def RootOK (t : Nat) (root : Pair) (s : Store) : Prop :=
  InvAt t s ∧ s .rootCrt = some root.crt ∧ s .rootKey = some root.key ∧
  root.signer = root.pub ∧ root.keyId = root.pub

/-- after `Provision` returned: additionally an intermediate signed by that root is stored and
    in hand, with ITS OWN key (a foreign key was detected and the pair replaced) -/
def ProvOK (t : Nat) (m : Mem) (s : Store) : Prop :=
  RootOK t m.root s ∧ s .intCrt = some m.inter.crt ∧ s .intKey = some m.inter.key ∧
  m.inter.signer = m.root.pub ∧ m.inter.keyId = m.inter.pub

theorem phase_root (t now : Nat) (s : Store) (fr : Nat) (h : InvAt t s) :
    wp (InvAt t) (fun s' _ => InvAt t s') (loadOrGenRoot .keyFirst now) (fun root s' _ => RootOK t root s') s fr := by
  cases hrc : s .rootCrt with
  | none =>
    apply wp_loadOrGenRoot_absent now s fr hrc h h
    rw [wp_storePair_keyFirst]
    have h1 := h.set_rootKey hrc fr
    have h2 := h1.set_rootCrt (by simp [hrc]) fr (now + rootLife) (by simp)
    exact ⟨h, h1, h, h1, h2, h2, h2, by simp [Pair.crt], by simp [Pair.key], rfl, rfl⟩
  | some b =>
    apply wp_loadOrGenRoot_present .keyFirst now s fr b hrc h h
    intro p sg ra id hb hrk
    obtain ⟨r, ra', h1, h2⟩ := h.root b hrc
    rw [hb] at h1
    cases h1
    rw [hrk] at h2
    cases h2
    exact ⟨h, by simp [hrc, hb, Pair.crt], by simp [hrk, Pair.key], rfl, rfl⟩

/-- the two writes of `genIntermediate` from a store with a complete root, whatever
    intermediate (if any) is stored -/
theorem phase_genInt (t now life : Nat) (root : Pair) (s : Store) (fr : Nat) (h : RootOK t root s) :
    wp (InvAt t) (fun s' _ => InvAt t s') (genInt .keyFirst now life root .genInt)
      (fun inter s' _ => ProvOK t ⟨root, inter⟩ s') s fr := by
  obtain ⟨hinv, hrc, hrk, hsg, hkid⟩ := h
  apply wp_genInt .keyFirst now life root .genInt s fr hkid.symm
  rw [wp_storePair_keyFirst]
  have h1 := hinv.set_intKey (t := t) fr
  have hrc' : s .rootCrt = some (.cert root.pub root.pub root.renewAt) := by
    rw [hrc, Pair.crt, hsg]
  have h2 := h1.set_intCrt fr root.pub root.renewAt (now + life) (by simp [hrc']) (by simp)
  rw [hkid]
  refine ⟨hinv, h1, hinv, h1, h2, h2, ⟨h2, ?_, ?_, hsg, hkid⟩, ?_, ?_, rfl, rfl⟩
  · simp [hrc]
  · simp [hrk]
  · simp [Pair.crt]
  · simp [Pair.key]

theorem phase_inter (t now life : Nat) (root : Pair) (s : Store) (fr : Nat) (h : RootOK t root s) :
    wp (InvAt t) (fun s' _ => InvAt t s') (loadOrGenInt .keyFirst now life root)
      (fun inter s' _ => ProvOK t ⟨root, inter⟩ s') s fr := by
  have hgen := phase_genInt t now life root s fr h
  obtain ⟨hinv, hrc, hrk, hsg, hkid⟩ := h
  cases hic : s .intCrt with
  | none => exact wp_loadOrGenInt_absent .keyFirst now life root s fr hic hinv hinv hgen
  | some b =>
    apply wp_loadOrGenInt_present .keyFirst now life root s fr b hic hinv hinv
    · intro p sg ra id hb hik hown
      obtain ⟨i, r, ra', rra, j, h1, h2, h3⟩ := hinv.inter b hic
      rw [hb] at h1
      cases h1
      simp only [hrc, Pair.crt, Option.some.injEq, Blob.cert.injEq] at h2
      exact ⟨⟨hinv, hrc, hrk, hsg, hkid⟩, by simp [hic, hb, Pair.crt], by simp [hik, Pair.key], h2.1.symm, hown rfl⟩
    · intro _ _ _ _ _ _ _ _
      exact hgen

/-- what a start-up that returns has in hand and in store as far as the root goes -/
def RootHeld (t : Nat) (m : Mem) (s : Store) : Prop :=
  InvAt t s ∧ s .rootCrt = some m.root.crt ∧ s .rootKey = some m.root.key

/-- the root a process holds is stored, so (by the invariant) it is self-signed and its key is
    the stored one -/
theorem RootHeld.self {t : Nat} {m : Mem} {s : Store} (h : RootHeld t m s) :
    m.root.signer = m.root.pub ∧ m.root.keyId = m.root.pub := by
  obtain ⟨hinv, hrc, hrk⟩ := h
  obtain ⟨r, ra, h1, h2⟩ := hinv.root _ hrc
  simp only [Pair.crt, Blob.cert.injEq] at h1
  rw [hrk] at h2
  simp only [Pair.key, Option.some.injEq, Blob.key.injEq] at h2
  omega

theorem RootHeld.mono {t t' : Nat} {m : Mem} {s : Store} (h : RootHeld t m s) (ht : t ≤ t') : RootHeld t' m s :=
  ⟨h.1.mono ht, h.2.1, h.2.2⟩

/-- `renewCertsForCA` — at `Start` or at run time — under ANY fault, whatever intermediate the
    process holds in memory and whatever intermediate is stored -/
theorem phase_renew' (c : Cfg) (m : Mem) (s : Store) (fr : Nat) (h : RootHeld c.now m s) :
    wp (InvAt c.now) (fun s' _ => InvAt c.now s') (renew .keyFirst c m) (fun m' s' _ => RootHeld c.now m' s') s fr := by
  obtain ⟨hsg, hkid⟩ := h.self
  obtain ⟨hinv, hrc, hrk⟩ := h
  unfold renew
  split
  · rw [wp_orElse, wp_bind]
    apply wp_loadOrGenRoot_present .keyFirst c.now s fr m.root.crt hrc hinv ⟨hinv, hrc, hrk⟩
    intro p sg ra id hb hrk'
    rw [hrk, Pair.key] at hrk'
    cases hrk'
    simp only [Pair.crt] at hb
    cases hb
    rw [wp_bind]
    apply wp_genInt .keyFirst c.now c.life _ .genInt s fr hkid.symm
    rw [wp_storePair_keyFirst]
    have h1 := hinv.set_intKey (t := c.now) fr
    have hrc' : s .rootCrt = some (.cert m.root.pub m.root.pub m.root.renewAt) := by
      rw [hrc, Pair.crt, hsg]
    have h2 := h1.set_intCrt fr m.root.pub m.root.renewAt (c.now + c.life) (by simp [hrc']) (by simp)
    simp only [Pair.key, Pair.crt, wp]
    rw [hkid]
    refine ⟨hinv, h1, ⟨hinv, hrc, hrk⟩, ⟨h1, ?_, ?_⟩, h2, ⟨h2, ?_, ?_⟩, ⟨h2, ?_, ?_⟩⟩
    all_goals first
      | (simp; exact hrc)
      | (simp; exact hrk)
  · exact ⟨hinv, hrc, hrk⟩

theorem phase_renew (c : Cfg) (m : Mem) (s : Store) (fr : Nat) (h : ProvOK c.now m s) :
    wp (InvAt c.now) (fun s' _ => InvAt c.now s') (renew .keyFirst c m) (fun m' s' _ => RootHeld c.now m' s') s fr := by
  obtain ⟨⟨hinv, hrc, hrk, _, _⟩, _, _, _, _⟩ := h
  exact phase_renew' c m s fr ⟨hinv, hrc, hrk⟩

/-- every exit of a start-up — return, error, death at any storage operation before or after
    its effect — leaves a store that satisfies the invariant again; if it returns, the root it
    holds is the stored one -/
theorem wp_startup_inv (c : Cfg) (s : Store) (fr : Nat) (h : InvAt c.now s) :
    wp (InvAt c.now) (fun s' _ => InvAt c.now s') (startup .keyFirst c) (fun m s' _ => RootHeld c.now m s') s fr := by
  unfold startup provision
  rw [wp_bind, wp_bind]
  refine wp_mono (fun _ _ h => h) ?_ _ _ _ (phase_root c.now c.now s fr h)
  intro root s1 fr1 hroot
  rw [wp_bind]
  refine wp_mono (fun _ _ h => h) ?_ _ _ _ (phase_inter c.now c.now c.life root s1 fr1 hroot)
  intro inter s2 fr2 hprov
  exact phase_renew c ⟨root, inter⟩ s2 fr2 hprov

end CaddyModel.C14

namespace CaddyModel.C14

/-! ### the same three phases without a fault: they return, and what they return is right -/

def noErr : Err → Store → Nat → Prop := fun _ _ _ => False

theorem phaseN_root (t now : Nat) (s : Store) (fr : Nat) (h : InvAt t s) :
    wpn noErr (loadOrGenRoot .keyFirst now) (fun root s' _ => RootOK t root s') s fr := by
  unfold loadOrGenRoot
  cases hrc : s .rootCrt with
  | none =>
    simp only [wpn, hrc, genRoot, storePair]
    have h1 := h.set_rootKey hrc fr
    have h2 := h1.set_rootCrt (by simp [hrc]) fr (now + rootLife) (by simp)
    exact ⟨h2, by simp [Pair.crt], by simp [Pair.key], rfl, rfl⟩
  | some b =>
    obtain ⟨r, ra, h1, h2⟩ := h.root b hrc
    subst h1
    simp only [wpn, hrc, h2]
    exact ⟨h, by simp [hrc, Pair.crt], by simp [h2, Pair.key], rfl, rfl⟩

theorem phaseN_genInt (t now life : Nat) (root : Pair) (s : Store) (fr : Nat) (h : RootOK t root s) :
    wpn noErr (genInt .keyFirst now life root .genInt) (fun inter s' _ => ProvOK t ⟨root, inter⟩ s') s fr := by
  obtain ⟨hinv, hrc, hrk, hsg, hkid⟩ := h
  simp only [wpn, genInt, hkid, if_true, storePair]
  have h1 := hinv.set_intKey (t := t) fr
  have hrc' : s .rootCrt = some (.cert root.pub root.pub root.renewAt) := by
    rw [hrc, Pair.crt, hsg]
  have h2 := h1.set_intCrt fr root.pub root.renewAt (now + life) (by simp [hrc']) (by simp)
  refine ⟨⟨h2, ?_, ?_, hsg, hkid⟩, ?_, ?_, rfl, rfl⟩
  · simp [hrc]
  · simp [hrk]
  · simp [Pair.crt, Pair.key]
  · simp [Pair.key]

theorem phaseN_inter (t now life : Nat) (root : Pair) (s : Store) (fr : Nat) (h : RootOK t root s) :
    wpn noErr (loadOrGenInt .keyFirst now life root) (fun inter s' _ => ProvOK t ⟨root, inter⟩ s') s fr := by
  have hgen := phaseN_genInt t now life root s fr h
  obtain ⟨hinv, hrc, hrk, hsg, hkid⟩ := h
  unfold loadOrGenInt
  cases hic : s .intCrt with
  | none =>
    simp only [wpn, hic]
    exact hgen
  | some b =>
    obtain ⟨i, r, ra', rra, j, h1, h2, h3⟩ := hinv.inter b hic
    subst h1
    simp only [wpn, hic, h3, Order.checksPair, Bool.true_and]
    simp only [hrc, Pair.crt, Option.some.injEq, Blob.cert.injEq] at h2
    by_cases hji : j = i
    · subst hji
      simp only [bne_self_eq_false, Bool.false_eq_true, if_false, wpn]
      exact ⟨⟨hinv, hrc, hrk, hsg, hkid⟩, by simp [hic, Pair.crt], by simp [h3, Pair.key], h2.1.symm, rfl⟩
    · have : (j != i) = true := by simp [hji]
      simp only [this, if_true]
      exact hgen

theorem phaseN_renew (c : Cfg) (m : Mem) (s : Store) (fr : Nat) (h : ProvOK c.now m s) :
    wpn noErr (renew .keyFirst c m) (fun m' s' _ => Complete s' m' ∧ m'.Consistent ∧ InvAt c.now s' ∧ m'.root = m.root) s fr := by
  obtain ⟨⟨hinv, hrc, hrk, hsg, hkid⟩, hic, hik, hisg, hown⟩ := h
  unfold renew
  split
  · rw [wpn_orElse, wpn_bind]
    unfold loadOrGenRoot
    have hrc' : s .rootCrt = some (.cert m.root.pub m.root.pub m.root.renewAt) := by
      rw [hrc, Pair.crt, hsg]
    have hrk' : s .rootKey = some (.key m.root.pub) := by rw [hrk, Pair.key, hkid]
    simp only [wpn, hrc', hrk', wpn_bind, genInt, if_true, storePair]
    have h1 := hinv.set_intKey (t := c.now) fr
    have h2 := h1.set_intCrt fr m.root.pub m.root.renewAt (c.now + c.life) (by simp [hrc']) (by simp)
    refine ⟨⟨?_, ?_, ?_, ?_⟩, ⟨hsg, hkid, rfl, rfl⟩, h2, trivial⟩
    · simp [hrc]
    · simp [hrk]
    · simp [Pair.crt, Pair.key]
    · simp [Pair.key]
  · exact ⟨⟨hrc, hrk, hic, hik⟩, ⟨hsg, hkid, hisg, hown⟩, hinv, rfl⟩

/-- an uninterrupted start-up on a store that satisfies the invariant returns, with a
    consistent chain that is exactly what the store then holds -/
theorem wpn_startup (c : Cfg) (s : Store) (fr : Nat) (h : InvAt c.now s) :
    wpn noErr (startup .keyFirst c) (fun m s' _ => Complete s' m ∧ m.Consistent ∧ InvAt c.now s') s fr := by
  unfold startup provision
  rw [wpn_bind, wpn_bind]
  refine wpn_mono ?_ _ _ _ (phaseN_root c.now c.now s fr h)
  intro root s1 fr1 hroot
  rw [wpn_bind]
  refine wpn_mono ?_ _ _ _ (phaseN_inter c.now c.now c.life root s1 fr1 hroot)
  intro inter s2 fr2 hprov
  show wpn noErr (renew Order.keyFirst c ⟨root, inter⟩) _ s2 fr2
  refine wpn_mono ?_ _ _ _ (phaseN_renew c ⟨root, inter⟩ s2 fr2 hprov)
  intro m s3 _ h3
  exact ⟨h3.1, h3.2.1, h3.2.2.1⟩

end CaddyModel.C14

namespace CaddyModel.C14

/-! ### frames: which keys a function can write at all (any order, any store) -/

section frames
variable {F : Store → Prop}

theorem frame_storePair (ord : Order) (kK kC : Key) (p : Pair) (e : Err) (s : Store) (fr : Nat)
    (hK : ∀ s b, F s → F (s.set kK b)) (hC : ∀ s b, F s → F (s.set kC b)) (h : F s) :
    wp F (fun s' _ => F s') (storePair ord kK kC p e) (fun _ s' _ => F s') s fr := by
  cases ord with
  | keyFirst =>
    simp only [storePair, wp]
    exact ⟨h, hK _ _ h, h, hK _ _ h, hK _ _ h, hC _ _ (hK _ _ h), hK _ _ h, hC _ _ (hK _ _ h), hC _ _ (hK _ _ h)⟩
  | keyFirstUnchecked =>
    simp only [storePair, wp]
    exact ⟨h, hK _ _ h, h, hK _ _ h, hK _ _ h, hC _ _ (hK _ _ h), hK _ _ h, hC _ _ (hK _ _ h), hC _ _ (hK _ _ h)⟩
  | certFirst =>
    simp only [storePair, wp]
    exact ⟨h, hC _ _ h, h, hC _ _ h, hC _ _ h, hK _ _ (hC _ _ h), hC _ _ h, hK _ _ (hC _ _ h), hK _ _ (hC _ _ h)⟩

theorem frame_genInt (ord : Order) (now life : Nat) (root : Pair) (e : Err) (s : Store) (fr : Nat)
    (hK : ∀ s b, F s → F (s.set .intKey b)) (hC : ∀ s b, F s → F (s.set .intCrt b)) (h : F s) :
    wp F (fun s' _ => F s') (genInt ord now life root e) (fun _ s' _ => F s') s fr := by
  unfold genInt
  simp only [wp]
  split
  · exact frame_storePair ord _ _ _ _ s (fr + 1) hK hC h
  · exact h

theorem frame_loadOrGenInt (ord : Order) (now life : Nat) (root : Pair) (s : Store) (fr : Nat)
    (hK : ∀ s b, F s → F (s.set .intKey b)) (hC : ∀ s b, F s → F (s.set .intCrt b)) (h : F s) :
    wp F (fun s' _ => F s') (loadOrGenInt ord now life root) (fun _ s' _ => F s') s fr := by
  cases hic : s .intCrt with
  | none => exact wp_loadOrGenInt_absent ord now life root s fr hic h h (frame_genInt ord now life root _ s fr hK hC h)
  | some b =>
    exact wp_loadOrGenInt_present ord now life root s fr b hic h h (fun _ _ _ _ _ _ _ => h)
      (fun _ _ _ _ _ _ _ _ => frame_genInt ord now life root _ s fr hK hC h)

theorem frame_loadOrGenRoot (ord : Order) (now : Nat) (s : Store) (fr : Nat)
    (hK : ∀ s b, F s → F (s.set .rootKey b)) (hC : ∀ s b, F s → F (s.set .rootCrt b)) (h : F s) :
    wp F (fun s' _ => F s') (loadOrGenRoot ord now) (fun _ s' _ => F s') s fr := by
  cases hrc : s .rootCrt with
  | none =>
    unfold loadOrGenRoot
    simp only [wp, hrc, genRoot]
    exact ⟨h, h, frame_storePair ord _ _ _ _ s (fr + 1) hK hC h⟩
  | some b => exact wp_loadOrGenRoot_present ord now s fr b hrc h h (fun _ _ _ _ _ _ => h)

end frames

/-- a stored root certificate is never touched again, nor is the key stored next to it; a
    start-up that returns uses exactly that certificate -/
theorem wp_startup_root_frozen (ord : Order) (c : Cfg) (s : Store) (fr : Nat) (b : Blob) (h : s .rootCrt = some b) :
    wp (fun s' => s' .rootCrt = some b ∧ s' .rootKey = s .rootKey)
       (fun s' _ => s' .rootCrt = some b ∧ s' .rootKey = s .rootKey)
       (startup ord c)
       (fun m s' _ => (s' .rootCrt = some b ∧ s' .rootKey = s .rootKey) ∧ m.root.crt = b) s fr := by
  have hK : ∀ (s' : Store) (b' : Blob), (s' .rootCrt = some b ∧ s' .rootKey = s .rootKey) →
      ((s'.set .intKey b') .rootCrt = some b ∧ (s'.set .intKey b') .rootKey = s .rootKey) := by
    intro s' b' hh; simpa using hh
  have hC : ∀ (s' : Store) (b' : Blob), (s' .rootCrt = some b ∧ s' .rootKey = s .rootKey) →
      ((s'.set .intCrt b') .rootCrt = some b ∧ (s'.set .intCrt b') .rootKey = s .rootKey) := by
    intro s' b' hh; simpa using hh
  unfold startup provision
  rw [wp_bind, wp_bind]
  apply wp_loadOrGenRoot_present ord c.now s fr b h ⟨h, rfl⟩ ⟨h, rfl⟩
  intro p sg ra id hb _
  rw [wp_bind]
  refine wp_mono (fun _ _ h => h) ?_ _ _ _ (frame_loadOrGenInt ord c.now c.life _ s fr hK hC ⟨h, rfl⟩)
  intro inter s2 fr2 h2
  show wp _ _ (renew ord c ⟨⟨p, sg, ra, id⟩, inter⟩) _ s2 fr2
  unfold renew
  split
  · rw [wp_orElse, wp_bind]
    apply wp_loadOrGenRoot_present ord c.now s2 fr2 b h2.1 h2 ⟨h2, by simp [Pair.crt, hb]⟩
    intro p' sg' ra' id' _ _
    rw [wp_bind]
    refine wp_mono ?_ ?_ _ _ _ (frame_genInt ord c.now c.life _ _ s2 fr2 hK hC h2)
    · intro s3 _ h3; exact ⟨h3, by simp [Pair.crt, hb]⟩
    · intro inter' s3 _ h3; exact ⟨h3, by simp [Pair.crt, hb]⟩
  · exact ⟨h2, by simp [Pair.crt, hb]⟩

/-- a stored intermediate certificate that is not inside its renewal window and has its own key
    next to it is never touched, nor is that key; a start-up that returns uses exactly that pair -/
theorem wp_startup_inter_frozen (ord : Order) (c : Cfg) (s : Store) (fr : Nat) (i r ra : Nat)
    (h : s .intCrt = some (.cert i r ra)) (hown : s .intKey = some (.key i)) (hnd : c.now < ra) :
    wp (fun s' => s' .intCrt = some (.cert i r ra) ∧ s' .intKey = s .intKey)
       (fun s' _ => s' .intCrt = some (.cert i r ra) ∧ s' .intKey = s .intKey)
       (startup ord c)
       (fun m s' _ => (s' .intCrt = some (.cert i r ra) ∧ s' .intKey = s .intKey) ∧ m.inter.crt = .cert i r ra ∧
          s' .intKey = some m.inter.key) s fr := by
  have hK : ∀ (s' : Store) (b' : Blob), (s' .intCrt = some (.cert i r ra) ∧ s' .intKey = s .intKey) →
      ((s'.set .rootKey b') .intCrt = some (.cert i r ra) ∧ (s'.set .rootKey b') .intKey = s .intKey) := by
    intro s' b' hh; simpa using hh
  have hC : ∀ (s' : Store) (b' : Blob), (s' .intCrt = some (.cert i r ra) ∧ s' .intKey = s .intKey) →
      ((s'.set .rootCrt b') .intCrt = some (.cert i r ra) ∧ (s'.set .rootCrt b') .intKey = s .intKey) := by
    intro s' b' hh; simpa using hh
  unfold startup provision
  rw [wp_bind, wp_bind]
  refine wp_mono (fun _ _ h => h) ?_ _ _ _ (frame_loadOrGenRoot ord c.now s fr hK hC ⟨h, rfl⟩)
  intro root s1 fr1 h1
  rw [wp_bind]
  apply wp_loadOrGenInt_present ord c.now c.life root s1 fr1 _ h1.1 h1 h1
  · intro p sg ra' id hb hik _
    cases hb
    show wp _ _ (renew ord c ⟨root, ⟨i, r, ra, id⟩⟩) _ s1 fr1
    unfold renew
    have : due ⟨i, r, ra, id⟩ c.now = false := by simp [due]; omega
    simp only [this]
    exact ⟨h1, rfl, hik⟩
  · intro p sg ra' id hb hik _ hne
    cases hb
    rw [h1.2, hown] at hik
    cases hik
    exact absurd rfl hne

end CaddyModel.C14

namespace CaddyModel.C14

/-! ### autosave -/

@[simp] theorem FS.set_tmp_path (fs : FS) (c : Option Bytes) : (fs.set .tmp c).path = fs.path := rfl
@[simp] theorem FS.set_path_path (fs : FS) (c : Option Bytes) : (fs.set .path c).path = c := rfl
@[simp] theorem FS.set_tmp_tmp (fs : FS) (c : Option Bytes) : (fs.set .tmp c).tmp = c := rfl
@[simp] theorem FS.set_path_tmp (fs : FS) (c : Option Bytes) : (fs.set .path c).tmp = fs.tmp := rfl
@[simp] theorem FS.get_tmp (fs : FS) : fs.get .tmp = fs.tmp := rfl
@[simp] theorem FS.get_path (fs : FS) : fs.get .path = fs.path := rfl

/-- the autosave file is what it was, or exactly the new config -/
def PathIn (fs0 : FS) (cfg : Bytes) (x : FS) : Prop := x.path = fs0.path ∨ x.path = some cfg

/-- temp-file-then-rename: at every instant of the three operations — whichever of them is
    killed, fails, or is torn after any number of bytes — the autosave file is the old one or
    the complete new one -/
theorem ops_tmpRename (ft : Option FFault) (fs : FS) (cfg : Bytes) :
    (∀ x ∈ (runOps ft (autosaveOps .tmpRename cfg) 0 fs).seen, PathIn fs cfg x) ∧
    PathIn fs cfg (runOps ft (autosaveOps .tmpRename cfg) 0 fs).fs := by
  cases ft with
  | none =>
    simp [autosaveOps, runOps, ffires, FOp.refused, FOp.apply, FOp.during, PathIn]
    rintro a (⟨n, _, rfl⟩ | rfl | rfl) <;> simp
  | some f =>
    obtain ⟨idx, mode⟩ := f
    by_cases h1 : idx = 1
    · subst h1
      cases mode <;> simp [autosaveOps, runOps, ffires, FOp.apply, FOp.during, FOp.torn, PathIn]
    · by_cases h2 : idx = 2
      · subst h2
        cases mode <;> simp [autosaveOps, runOps, ffires, FOp.refused, FOp.apply, FOp.during, FOp.torn, PathIn] <;>
          (rintro a (⟨n, _, rfl⟩ | rfl) <;> simp)
      · by_cases h3 : idx = 3
        · subst h3
          cases mode <;> simp [autosaveOps, runOps, ffires, FOp.refused, FOp.apply, FOp.during, FOp.torn, PathIn] <;>
            first
              | (rintro a (⟨n, _, rfl⟩ | rfl | rfl) <;> simp)
              | (rintro a (⟨n, _, rfl⟩ | rfl) <;> simp)
        · simp [autosaveOps, runOps, ffires, FOp.refused, FOp.apply, FOp.during, PathIn, h1, h2, h3]
          rintro a (⟨n, _, rfl⟩ | rfl | rfl) <;> simp

/-- without a fault the three operations complete and the file is the new config -/
theorem ops_tmpRename_nofault (fs : FS) (cfg : Bytes) :
    (runOps none (autosaveOps .tmpRename cfg) 0 fs).fs.path = some cfg ∧
    (runOps none (autosaveOps .tmpRename cfg) 0 fs).status = .done ∧
    (runOps none (autosaveOps .tmpRename cfg) 0 fs).log = autosaveOps .tmpRename cfg := by
  simp [autosaveOps, runOps, ffires, FOp.refused, FOp.apply]

/-- the attempted operations are a prefix of the autosave program -/
theorem runOps_log_prefix (ft : Option FFault) : ∀ (ops : List FOp) (i : Nat) (fs : FS),
    (runOps ft ops i fs).log <+: ops := by
  intro ops
  induction ops with
  | nil => intro i fs; simp [runOps]
  | cons op rest ih =>
    intro i fs
    unfold runOps
    split
    · split
      · exact List.prefix_cons_inj op |>.mpr (List.nil_prefix)
      · exact List.prefix_cons_inj op |>.mpr (ih (i + 1) (op.apply fs))
    all_goals exact List.prefix_cons_inj op |>.mpr (List.nil_prefix)

theorem Good.mono {A B : List Bytes} {fs : FS} (h : Good A fs) (hs : ∀ c ∈ A, c ∈ B) : Good B fs := by
  rcases h with h | ⟨c, hc, h⟩
  · exact Or.inl h
  · exact Or.inr ⟨c, hs c hc, h⟩

theorem Good.of_pathIn {A : List Bytes} {fs0 x : FS} {cfg : Bytes} (h0 : Good A fs0) (h : PathIn fs0 cfg x) :
    Good (A ++ [cfg]) x := by
  rcases h with h | h
  · rcases h0 with h0 | ⟨c, hc, h0⟩
    · exact Or.inl (h.trans h0)
    · exact Or.inr ⟨c, by simp [hc], h.trans h0⟩
  · exact Or.inr ⟨cfg, by simp, h⟩

/-- the configs a load adds to the accepted ones -/
def acceptedBy (l : Load) (a : AState) : List Bytes :=
  if !sameCfg l a && l.accepted then [l.cfg] else []

/-- one load: every instant and the final state hold an accepted config -/
theorem loadStep_good (l : Load) (ft : Option FFault) (a : AState) (A : List Bytes) (h : Good A a.fs) :
    (∀ x ∈ (loadStep .tmpRename l ft a).seen, Good (A ++ acceptedBy l a) x) ∧
    Good (A ++ acceptedBy l a) (loadStep .tmpRename l ft a).st.fs := by
  unfold loadStep acceptedBy
  by_cases hs : sameCfg l a = true
  · simp [hs, h]
  · simp only [hs, Bool.false_eq_true, if_false, Bool.not_false, Bool.true_and]
    by_cases hacc : l.accepted = true
    · simp only [hacc, Bool.not_true, Bool.false_eq_true, if_false, if_true]
      by_cases hp : l.persists = true
      · simp only [hp, if_true]
        have ho := ops_tmpRename ft a.fs l.cfg
        split <;> exact ⟨fun x hx => Good.of_pathIn h (ho.1 x hx), Good.of_pathIn h ho.2⟩
      · simp only [hp, Bool.false_eq_true, if_false]
        exact ⟨fun x hx => by simp at hx; subst hx; exact h.mono (fun c hc => by simp [hc]),
               h.mono (fun c hc => by simp [hc])⟩
    · simp [hacc, h]

end CaddyModel.C14

namespace CaddyModel.C14

/-! ### histories -/

theorem Res.Holds.store_all {Q : α → Store → Nat → Prop} {E : Store → Nat → Prop} {C : Store → Prop}
    {P : Store → Prop} {r : Res α} (h : r.Holds Q E C)
    (hQ : ∀ a s fr, Q a s fr → P s) (hE : ∀ s fr, E s fr → P s) (hC : ∀ s, C s → P s) : P r.sys.store := by
  cases r with
  | ok a y => exact hQ _ _ _ h
  | err e y => exact hE _ _ h
  | crash y => exact hC _ h

/-- a root certificate that is stored stays stored, with the key next to it (or with no key
    next to it), through any further history of start-ups, interrupted or not — in either
    write order -/
theorem root_frozen (ord : Order) : ∀ (evs : List Event) (d : Disk) (b : Blob), d.store .rootCrt = some b →
    (runHist ord evs d).store .rootCrt = some b ∧
    (runHist ord evs d).store .rootKey = d.store .rootKey
  | [], _, _, h => ⟨h, rfl⟩
  | e :: es, d, b, h => by
    have hs := wp_sound e.fault (startup ord e.cfg) _ (boot d)
      (wp_startup_root_frozen ord e.cfg d.store d.fresh b h)
    have h1 : (e.after ord d).store .rootCrt = some b ∧ (e.after ord d).store .rootKey = d.store .rootKey :=
      hs.store_all (fun _ _ _ h => h.1) (fun _ _ h => h) (fun _ h => h)
    have ih := root_frozen ord es (e.after ord d) b h1.1
    exact ⟨ih.1, ih.2.trans h1.2⟩

/-- a load event for examples and witnesses -/
def exLoad (c : Bytes) (persist accepted : Bool) : Load :=
  { cfg := c, force := false, accepted := accepted, nonNil := true, persistCfg := persist, allowPersist := true }

/-- a load that is not the unchanged-document no-op, accepted, persistence on, no fault: returns ok, the
    file and the running document are its config, the file operations are the whole autosave program -/
theorem loadStep_fresh_ok (l : Load) (a : AState) (hs : sameCfg l a = false)
    (hp : l.persists = true) (hacc : l.accepted = true) :
    (loadStep codeStyle l none a).res = .ok ∧ (loadStep codeStyle l none a).st.fs.path = some l.cfg ∧
    (loadStep codeStyle l none a).st.cur = some l.cfg ∧
    (loadStep codeStyle l none a).log = autosaveOps .tmpRename l.cfg := by
  have ho := ops_tmpRename_nofault a.fs l.cfg
  unfold loadStep
  simp only [hs, Bool.false_eq_true, if_false, hacc, Bool.not_true, hp, if_true, codeStyle, ho.2.1]
  exact ⟨trivial, ho.1, trivial, ho.2.2⟩

end CaddyModel.C14
