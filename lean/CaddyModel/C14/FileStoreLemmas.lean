/-
C14 — FileStorage: helper lemmas.

`fileStore_keys`: whatever single fault hits whichever of the six file operations of a Store —
kill or reported error, before, after or in the middle of the operation's effect — the key files
afterwards are untouched, or the key's file is the whole new value; and if Store returned nil it
is the latter.  `wp_sound_fs` / `wpn_sound_fs`: the calculus of Lemmas.lean is sound for
`execFS` too, so everything proved with it about `exec` holds on the real write protocol.
-/
import CaddyModel.C14.FileStore
import CaddyModel.C14.Lemmas

namespace CaddyModel.C14

@[simp] theorem Dir.setTmp_keys (d : Dir) (n : Nat) (c : Option FContent) : (d.setTmp n c).keys = d.keys := rfl
@[simp] theorem Dir.setKey_tmps (d : Dir) (k : Key) (c : Option FContent) : (d.setKey k c).tmps = d.tmps := rfl
@[simp] theorem Dir.setTmp_tmps_same (d : Dir) (n : Nat) (c : Option FContent) : (d.setTmp n c).tmps n = c := by
  simp [Dir.setTmp]
@[simp] theorem Dir.setKey_keys (d : Dir) (k : Key) (c : Option FContent) :
    (d.setKey k c).keys = fun k' => if k' = k then c else d.keys k' := rfl

/-- the key files after a Store: untouched, or the key's file replaced by the whole new value -/
def KeysAfter (d : Dir) (k : Key) (b : Blob) (d' : Dir) : Prop :=
  d'.keys = d.keys ∨ d'.keys = fun k' => if k' = k then some (.whole b) else d.keys k'

theorem fileStore_keys (ff : Option FFault) (i n : Nat) (d : Dir) (k : Key) (b : Blob) :
    KeysAfter d k b (runDOps ff (fileStoreOps n k b) i d).dir ∧
    ((runDOps ff (fileStoreOps n k b) i d).status = .done →
      (runDOps ff (fileStoreOps n k b) i d).dir.keys = fun k' => if k' = k then some (.whole b) else d.keys k') := by
  cases ff with
  | none => simp [fileStoreOps, runDOps, ffires, DOp.apply, KeysAfter]
  | some f =>
    obtain ⟨idx, mode⟩ := f
    by_cases h1 : idx = i + 1
    · subst h1
      cases mode <;> simp [fileStoreOps, runDOps, ffires, DOp.apply, DOp.torn, DOp.cleanup, KeysAfter]
    by_cases h2 : idx = i + 2
    · subst h2
      cases mode <;> simp [fileStoreOps, runDOps, ffires, DOp.apply, DOp.torn, DOp.cleanup, KeysAfter]
    by_cases h3 : idx = i + 3
    · subst h3
      cases mode <;> simp [fileStoreOps, runDOps, ffires, DOp.apply, DOp.torn, DOp.cleanup, KeysAfter]
    by_cases h4 : idx = i + 4
    · subst h4
      cases mode <;> simp [fileStoreOps, runDOps, ffires, DOp.apply, DOp.torn, DOp.cleanup, KeysAfter]
    by_cases h5 : idx = i + 5
    · subst h5
      cases mode <;> simp [fileStoreOps, runDOps, ffires, DOp.apply, DOp.torn, DOp.cleanup, KeysAfter]
    by_cases h6 : idx = i + 6
    · subst h6
      cases mode <;> simp [fileStoreOps, runDOps, ffires, DOp.apply, DOp.torn, DOp.cleanup, KeysAfter]
    have e1 : ¬ idx = i + 1 + 1 := h2
    have e2 : ¬ idx = i + 1 + 1 + 1 := h3
    have e3 : ¬ idx = i + 1 + 1 + 1 + 1 := h4
    have e4 : ¬ idx = i + 1 + 1 + 1 + 1 + 1 := h5
    have e5 : ¬ idx = i + 1 + 1 + 1 + 1 + 1 + 1 := h6
    simp [fileStoreOps, runDOps, ffires, DOp.apply, KeysAfter, h1, e1, e2, e3, e4, e5]


theorem view_of_keys_eq {d d' : Dir} (h : d'.keys = d.keys) : view d' = view d := by
  funext k; simp [view, h]

theorem view_of_keys_set {d d' : Dir} {k : Key} {b : Blob}
    (h : d'.keys = fun k' => if k' = k then some (.whole b) else d.keys k') : view d' = (view d).set k b := by
  funext k'
  simp only [view, h, Store.set]
  split <;> simp [contentBlob]

theorem keysWhole_of_keys_eq {d d' : Dir} (h : d'.keys = d.keys) (hw : KeysWhole d) : KeysWhole d' := by
  intro k c hc; rw [h] at hc; exact hw k c hc

theorem keysWhole_of_keys_set {d d' : Dir} {k : Key} {b : Blob}
    (h : d'.keys = fun k' => if k' = k then some (.whole b) else d.keys k') (hw : KeysWhole d) : KeysWhole d' := by
  intro k' c hc
  rw [h] at hc
  simp only at hc
  split at hc
  · cases hc; exact ⟨b, rfl⟩
  · exact hw k' c hc

theorem keysWhole_empty : KeysWhole Dir.empty := by
  intro k c hc; simp [Dir.empty] at hc

/-! ### the calculus is sound for execution through FileStorage -/

def FRes.Holds (Q : α → Store → Nat → Prop) (E : Store → Nat → Prop) (C : Store → Prop) : FRes α → Prop
  | .ok a y => Q a (view y.dir) y.fresh ∧ KeysWhole y.dir
  | .err _ y => E (view y.dir) y.fresh ∧ KeysWhole y.dir
  | .crash y => C (view y.dir) ∧ KeysWhole y.dir

theorem wp_sound_fs {C : Store → Prop} {E : Store → Nat → Prop} (ff : Option FFault) :
    ∀ (p : Prog α) (Q : α → Store → Nat → Prop) (y : FSys), KeysWhole y.dir →
      wp C E p Q (view y.dir) y.fresh → (execFS ff p y).Holds Q E C := by
  intro p
  induction p with
  | ret a => intro Q y hw h; exact ⟨h, hw⟩
  | fail e => intro Q y hw h; exact ⟨h, hw⟩
  | load k onErr cont ihE ihC =>
    intro Q y hw h
    obtain ⟨hc, he, hk⟩ := h
    unfold execFS
    cases hl : loadFile ff k y with
    | value v =>
      have hv : v = view y.dir k := by
        unfold loadFile at hl
        split at hl <;> first | (cases hl; rfl) | cases hl
      subst hv
      exact ihC _ Q _ hw hk
    | failed => exact ihE Q _ hw he
    | killed => exact ⟨hc, hw⟩
  | store k b onErr cont ihE ihC =>
    intro Q y hw h
    obtain ⟨hc, hc', he, he', hk⟩ := h
    have hkeys := fileStore_keys ff y.nops y.dir.nextTmp y.dir k b
    unfold execFS
    cases hst : (runDOps ff (fileStoreOps y.dir.nextTmp k b) y.nops y.dir).status with
    | done =>
      have hset := hkeys.2 hst
      simp only
      refine ihC Q _ (keysWhole_of_keys_set hset hw) ?_
      simp only [view_of_keys_set hset]
      exact hk
    | failed =>
      simp only
      rcases hkeys.1 with h0 | h1
      · refine ihE Q _ (keysWhole_of_keys_eq h0 hw) ?_
        simp only [view_of_keys_eq h0]
        exact he
      · refine ihE Q _ (keysWhole_of_keys_set h1 hw) ?_
        simp only [view_of_keys_set h1]
        exact he'
    | killed =>
      simp only
      rcases hkeys.1 with h0 | h1
      · exact ⟨by simp only [view_of_keys_eq h0]; exact hc, keysWhole_of_keys_eq h0 hw⟩
      · exact ⟨by simp only [view_of_keys_set h1]; exact hc', keysWhole_of_keys_set h1 hw⟩
  | fresh cont ih =>
    intro Q y hw h
    unfold execFS
    exact ih y.fresh Q _ hw h

/-! ### without a fault -/

theorem fileStore_nofault_done (i n : Nat) (d : Dir) (k : Key) (b : Blob) :
    (runDOps none (fileStoreOps n k b) i d).status = .done := by
  simp [fileStoreOps, runDOps, ffires]

def FRes.HoldsN (Q : α → Store → Nat → Prop) (E : Err → Store → Nat → Prop) : FRes α → Prop
  | .ok a y => Q a (view y.dir) y.fresh ∧ KeysWhole y.dir
  | .err e y => E e (view y.dir) y.fresh
  | .crash _ => False

theorem wpn_sound_fs {E : Err → Store → Nat → Prop} :
    ∀ (p : Prog α) (Q : α → Store → Nat → Prop) (y : FSys), KeysWhole y.dir →
      wpn E p Q (view y.dir) y.fresh → (execFS none p y).HoldsN Q E := by
  intro p
  induction p with
  | ret a => intro Q y hw h; exact ⟨h, hw⟩
  | fail e => intro Q y hw h; exact h
  | load k onErr cont _ ihC =>
    intro Q y hw h
    unfold execFS
    simp only [loadFile, ffires]
    exact ihC _ Q _ hw h
  | store k b onErr cont _ ihC =>
    intro Q y hw h
    have hset := (fileStore_keys none y.nops y.dir.nextTmp y.dir k b).2 (fileStore_nofault_done _ _ _ _ _)
    unfold execFS
    simp only [fileStore_nofault_done]
    refine ihC Q _ (keysWhole_of_keys_set hset hw) ?_
    simp only [view_of_keys_set hset]
    exact h
  | fresh cont ih =>
    intro Q y hw h
    unfold execFS
    exact ih y.fresh Q _ hw h

end CaddyModel.C14
