import CaddyModel.C14.Props
open CaddyModel.C14
#print axioms placeholder_ops_from_empty
