import CaddyModel.C14.Props
open CaddyModel.C14
-- local CA
#print axioms interrupted_startup_keeps_invariant
#print axioms reachable_invariant
#print axioms recovery
#print axioms recovery_after_interrupted_creation
#print axioms provision_alone_consistent
#print axioms root_stable
#print axioms intermediate_stable_until_renewal
-- renewal at run time (maintenance pass of a running process)
#print axioms tick_keeps_invariant
#print axioms reachable_invariant_with_ticks
#print axioms recovery_with_runtime_renewal
-- the CA on certmagic.FileStorage: six file operations per Store, a fault at any of them
#print axioms fileStore_atomic
#print axioms wp_sound_fs
#print axioms wpn_sound_fs
#print axioms fs_interrupted_startup_keeps_invariant
#print axioms fs_reachable_invariant
#print axioms recovery_on_file_storage
#print axioms fs_root_frozen
#print axioms recovery_after_any_single_file_fault
-- config autosave
#print axioms autosave_always_complete
#print axioms autosave_latest_after_return
#print axioms autosave_only_if_persist_enabled
#print axioms autosave_only_accepted_configs
#print axioms autosave_recovers_after_interrupted_autosave
#print axioms autosave_exact_document
-- the resume side (cmdRun --resume, --envfile, AppConfigDir)
#print axioms writerDir_is_env_after_files
#print axioms resume_reads_where_autosave_writes
#print axioms resume_recovers_latest_push
#print axioms caddyfile_persist_config
#print axioms default_storage_root_reloaded
-- the calculus everything above rests on
#print axioms wp_sound
#print axioms wpn_sound
-- the old operation orders violate the property (non-vacuity), and what Start is needed for
#print axioms recovery_old_order_fails
#print axioms autosave_old_style_fails
#print axioms autosave_excl_wedged
#print axioms autosave_excl_fails
#print axioms recovery_with_runtime_renewal_old_code_fails
#print axioms provision_alone_after_interrupted_renewal_mismatched_old_code
#print axioms ca_write_order_matches_source
#print axioms autosave_program_matches_source
#print axioms resume_read_matches_source
#print axioms change_config_runs_before_success_matches_source
#print axioms inPlace_store_not_atomic
#print axioms resume_before_envfiles_fails
#print axioms autosave_id_shortcut_fails
#print axioms load_endpoint_autosaves_adapted_document
#print axioms load_endpoint_refusal_touches_nothing
#print axioms load_endpoint_force_is_exact_header
#print axioms load_endpoint_matches_source
#print axioms startup_touches_only_selected_storage
#print axioms root_stable_per_storage
#print axioms ca_storage_selection_matches_source
