import CaddyModel.Util.DrvMain
import CaddyModel.C14.Driver

def main (args : List String) : IO Unit :=
  CaddyModel.drvMain "C14" CaddyModel.C14.handle CaddyModel.C14.witnessLines args
