/-
C14 line-protocol driver.

  ca <ev>;<ev>;…        a history of start-ups of the PKI app on one storage, oldest first
      ev    = <life>:<fault> | m:<fault> | d:<key> | c:<key>><key>
              (m = the process left running by the latest start-up — if that returned — performs
               one maintenance pass `renewCerts` (hook VerifRenewCerts); a later start-up means
               that process is gone; answer `m:<res> [<ops>] {…}` or `m:norun {…}`)
              (d / c = somebody deletes a stored value / copies one over another between two
               start-ups: not an interruption — used only to reach the decode-error branches)
      life  = s | l            intermediate lifetime 1ns (inside its renewal window at once) | default
      fault = - | <k><mode>    k = 1-based index of the storage operation inside this start-up
      mode  = cb | ca | fb | fa   crash / fail (error returned), before / after the effect
    the clock of the i-th event is i.
    answer: per event  `<res> [<ops>] {rc=…,rk=…,ic=…,ik=…}`  joined by ` ; `
      res = ok(r=<crt>,i=<crt>,k=<key>) | err:<class> | crash
      ops = L:<key> | S:<key>=<blob>      blob = k<id> | c<pub>/<signer>
    key ids are renamed in order of first appearance in the answer.

  fs <ev>;<ev>;…        start-ups of the PKI app on the real certmagic.FileStorage (a directory), each
                        in its own process, oldest first
      ev    = <life>:<fault>      life as above; fault = - | K<k> | F<k>: the process is killed before /
                                  the call fails (EIO) at the k-th FILE operation of this start-up
                                  (a read of a key file counts as one, a Store is six + clean-up)
    answer: per event  `<res> [<ops>] {rc=…,rk=…,ic=…,ik=…;tmp=<leftover temp files>}`  joined by ` ; `
      ops = rd:<key> | t+ | ch | w:<blob> | sy | cl | mv:<key> | rm
      tmp = the temp files left in the directory, each e (empty) | p (torn) | w (whole), sorted

  cs <ev>;<ev>;…        start-ups of the PKI app whose config selects the storage: ev = <g|o><s|l>:<fault>
                        (g: the config's global storage, o: the CA's own `storage` module — `TwoStores.lean`)
    answer: per event  `<g|o>:<res> [<ops on the selected storage>] {<selected storage>} | {<other storage>}`

  rs <env> <files> <ev>;…   the real `caddy run [--resume] --envfile … --config …` (see harness resume.go)
      env   = x<val>h<val>      XDG_CONFIG_HOME, HOME of the process: - unset | e empty | 0..3 a directory
      files = . | <file>/<file>/…   file = _ | <var>=<val>,…   var = x | h | o
      ev    = S:<r|->:<cfg> | P:<cfg> | F:<cfg> | G:<cfg> | M:<cfg> | X:<cfg> | Y:<cfg> | Q:<cfg> | I:<cfg> | K
              cfg = <n><p|d|n>[x|k][i|u] | c<n><d|n> (S, P, F, G: a Caddyfile) | c<n>b (P, F, G: a Caddyfile the adapter refuses)
              (P = POST /load, F = the same with `Cache-Control: must-revalidate`, G = with `no-cache, must-revalidate`;
               M = PUT /load, X = Content-Type of an adapter that does not exist, Y = a Content-Type without a slash
               (with must-revalidate): all three are answered before caddy.Load;
               a JSON cfg goes out as application/json, a Caddyfile as text/caddyfile — `Endpoint.lean`;
               Q = PATCH /config/apps/c14probe, I = PATCH /id/a with the app object of cfg;
               i / u = the app object carries @id a / b)
    answer per event: S=<running config>|S=fail, P=<ok[!]|rej>|P=norun (`!` = the autosave file was written again), K, each + {a=<autosave where the
    environment after the env files says>,b=<… where the process environment alone says>}

  as <ev>;<ev>;…        a history of config loads and process restarts on one autosave directory
      ev    = R | U | L<n>:<flags>:<fault>
              (U = restart with `--resume`: the new process loads, with forceReload, whatever the
               autosave file holds; nothing is loaded when there is no file)
      flags = one of d p n (persist absent / true / false), then any of
              f (forceReload) x (provision fails) y (start fails) j (does not decode) z (config is null)
              i / u / v (an @id tag on the app / the same renamed / moved to another object: the same config
              number with different tags differs ONLY in ids — the document, and so the autosave file, differs)
      fault = - | K<k> | F<k>   the k-th file operation of this load: process killed before it / it fails without effect
    answer: per event  `<res>[<ops>]{p=…,t=…}`  joined by ` `
      res = ok | same | rej | killed | R | U:<content>=<res of the resumed load> | U:-
      ops = c:<f> | w:<f>:<content> | mv:<f>><f>       f = p | t
      content = - (absent) | e (empty) | <n><flags> (exactly that config) | ~ (anything else)
-/
import CaddyModel.C14.Model
import CaddyModel.C14.FileStore
import CaddyModel.C14.Resume
import CaddyModel.C14.Endpoint
import CaddyModel.C14.TwoStores

namespace CaddyModel.C14

/-! ### CA -/

inductive Tok
  | s (x : String)
  | id (n : Nat)

def keyName : Key → String
  | .rootCrt => "rc" | .rootKey => "rk" | .intCrt => "ic" | .intKey => "ik"

def blobToks : Blob → List Tok
  | .key n => [.s "k", .id n]
  | .cert p sg _ => [.s "c", .id p, .s "/", .id sg]

def optBlobToks : Option Blob → List Tok
  | none => [.s "-"]
  | some b => blobToks b

def errName : Err → String
  | .loadRootCert => "load-root-cert" | .genRoot => "gen-root" | .parseRootCert => "parse-root-cert"
  | .loadRootKey => "load-root-key" | .decodeRootKey => "decode-root-key"
  | .loadIntCert => "load-inter-cert" | .genInt => "gen-inter" | .decodeIntCert => "decode-inter-cert"
  | .loadIntKey => "load-inter-key" | .decodeIntKey => "decode-inter-key"

def sepBy (sep : Tok) : List (List Tok) → List Tok
  | [] => []
  | [x] => x
  | x :: xs => x ++ sep :: sepBy sep xs

def opToks : OpRec → List Tok
  | .load k => [.s ("L:" ++ keyName k)]
  | .store k b => .s ("S:" ++ keyName k ++ "=") :: blobToks b

def storeToks (s : Store) : List Tok :=
  sepBy (.s ",") ([Key.rootCrt, .rootKey, .intCrt, .intKey].map fun k => .s (keyName k ++ "=") :: optBlobToks (s k))

def resToks : Res Mem → List Tok
  | .ok m _ => [.s "ok(r="] ++ blobToks m.root.crt ++ [.s ",i="] ++ blobToks m.inter.crt ++ [.s ",k="] ++ blobToks m.inter.key ++ [.s ")"]
  | .err e _ => [.s ("err:" ++ errName e)]
  | .crash _ => [.s "crash"]

def eventToks (r : Res Mem) : List Tok :=
  resToks r ++ [.s " ["] ++ sepBy (.s ",") (r.sys.log.map opToks) ++ [.s "] {"] ++ storeToks r.sys.store ++ [.s "}"]

/-- a step of a `ca` line: a start-up, a maintenance pass, or tampering with the storage -/
inductive CAStep
  | start (e : Event)
  | tick (now : Nat) (f : Option Fault)
  | del (k : Key)
  | copy (src dst : Key)

def Store.unset (s : Store) (k : Key) : Store := fun k' => if k' = k then none else s k'

def tamperToks (s : Store) : List Tok := [.s "T {"] ++ storeToks s ++ [.s "}"]

def caToks (ord : Order) : List CAStep → World → List (List Tok)
  | [], _ => []
  | .start e :: es, w => eventToks (e.run ord w.disk) :: caToks ord es (w.step ord (.start e))
  | .tick n f :: es, w =>
    match w.proc with
    | none => ([.s "m:norun {"] ++ storeToks w.disk.store ++ [.s "}"]) :: caToks ord es (w.step ord (.tick n f))
    | some (m, life) =>
      (.s "m:" :: eventToks (tickRun ord n f life m w.disk)) :: caToks ord es (w.step ord (.tick n f))
  | .del k :: es, w =>
    tamperToks (w.disk.store.unset k) :: caToks ord es { w with disk := ⟨w.disk.store.unset k, w.disk.fresh⟩ }
  | .copy a b :: es, w =>
    match w.disk.store a with
    | some v => tamperToks (w.disk.store.set b v) :: caToks ord es { w with disk := ⟨w.disk.store.set b v, w.disk.fresh⟩ }
    | none => tamperToks (w.disk.store.unset b) :: caToks ord es { w with disk := ⟨w.disk.store.unset b, w.disk.fresh⟩ }

def lookupId (n : Nat) : List Nat → Nat → Option Nat
  | [], _ => none
  | x :: xs, i => if x = n then some i else lookupId n xs (i + 1)

/-- rename ids in order of first appearance -/
def render : List Tok → List Nat → String → String
  | [], _, acc => acc
  | .s x :: ts, seen, acc => render ts seen (acc ++ x)
  | .id n :: ts, seen, acc =>
    match lookupId n seen 0 with
    | some i => render ts seen (acc ++ toString i)
    | none => render ts (seen ++ [n]) (acc ++ toString seen.length)

def parseMode : String → Option Mode
  | "cb" => some .crashBefore | "ca" => some .crashAfter
  | "fb" => some .failBefore | "fa" => some .failAfter
  | _ => none

def longLife : Nat := 1000000

def parseFault (s : String) : Option (Option Fault) :=
  if s == "-" then some none else
  if s.length < 3 then none else
  match (s.dropEnd 2).toString.toNat?, parseMode (s.takeEnd 2).toString with
  | some k, some m => if k = 0 then none else some (some ⟨k, m⟩)
  | _, _ => none

def parseKey : String → Option Key
  | "rc" => some .rootCrt | "rk" => some .rootKey | "ic" => some .intCrt | "ik" => some .intKey
  | _ => none

def parseCAEvent (now : Nat) (s : String) : Option CAStep :=
  match s.splitOn ":" with
  | ["m", fault] => (parseFault fault).map (.tick now)
  | ["d", k] => (parseKey k).map .del
  | ["c", ab] =>
    match ab.splitOn ">" with
    | [a, b] => do pure (.copy (← parseKey a) (← parseKey b))
    | _ => none
  | [life, fault] =>
    match (if life == "s" then some 0 else if life == "l" then some longLife else none), parseFault fault with
    | some lf, some ft => some (.start ⟨⟨now, lf⟩, ft⟩)
    | _, _ => none
  | _ => none

def parseCAEvents : List String → Nat → Option (List CAStep)
  | [], _ => some []
  | s :: ss, now => do
    let e ← parseCAEvent now s
    let es ← parseCAEvents ss (now + 1)
    pure (e :: es)

def handleCA (hist : String) : String :=
  match parseCAEvents (hist.splitOn ";") 1 with
  | some evs => render (sepBy (.s " ; ") (caToks codeOrder evs World.empty)) [] ""
  | none => "bad-op"

/-! ### the CA on the storage its config selects (`cs`): ev = <g|o><s|l>:<fault> — g: no `storage` in the
CA's config (the config's global storage), o: the CA's own `storage` module -/

def parseCSEvent (now : Nat) (s : String) : Option (StoreSel × Event) :=
  match s.toList with
  | c :: rest =>
    match (if c == 'g' then some StoreSel.global else if c == 'o' then some StoreSel.own else none),
          parseCAEvent now (String.ofList rest) with
    | some sel, some (.start e) => some (sel, e)
    | _, _ => none
  | [] => none

def parseCSEvents : List String → Nat → Option (List (StoreSel × Event))
  | [], _ => some []
  | s :: ss, now => do
    let e ← parseCSEvent now s
    let es ← parseCSEvents ss (now + 1)
    pure (e :: es)

def selName : StoreSel → String
  | .global => "g:"
  | .own => "o:"

/-- per start-up: the selected storage's answer as in `ca`, then the OTHER storage -/
def csToks (ord : Order) : List (StoreSel × Event) → Disks → List (List Tok)
  | [], _ => []
  | se :: es, ds =>
    ([.s (selName se.1)] ++ eventToks (se.2.run ord (ds.sel se.1)) ++ [.s " | {"] ++ storeToks (ds.sel se.1.other).store ++ [.s "}"]) ::
      csToks ord es (ds.step ord se.1 se.2)

def handleCS (hist : String) : String :=
  match parseCSEvents (hist.splitOn ";") 1 with
  | some evs => render (sepBy (.s " ; ") (csToks codeOrder evs Disks.empty)) [] ""
  | none => "bad-op"

/-! ### the CA on FileStorage -/

def dopToks : DOp → List Tok
  | .read k => [.s ("rd:" ++ keyName k)]
  | .creatTemp _ => [.s "t+"]
  | .chmod _ => [.s "ch"]
  | .write _ b => .s "w:" :: blobToks b
  | .sync _ => [.s "sy"]
  | .close _ => [.s "cl"]
  | .rename _ k => [.s ("mv:" ++ keyName k)]
  | .remove _ => [.s "rm"]
  | .writeKey k b => .s ("wk:" ++ keyName k ++ "=") :: blobToks b
  | .truncKey k => [.s ("tk:" ++ keyName k)]

def contentKind : FContent → String
  | .empty => "e" | .part _ _ => "p" | .whole _ => "w"

/-- kinds of the temp files left, in sorted order (e < p < w) -/
def tmpKinds (d : Dir) : String :=
  let ks := (List.range d.nextTmp).filterMap fun n => (d.tmps n).map contentKind
  ",".intercalate (ks.filter (· == "e") ++ ks.filter (· == "p") ++ ks.filter (· == "w"))

def fresToks : FRes Mem → List Tok
  | .ok m _ => [.s "ok(r="] ++ blobToks m.root.crt ++ [.s ",i="] ++ blobToks m.inter.crt ++ [.s ",k="] ++ blobToks m.inter.key ++ [.s ")"]
  | .err e _ => [.s ("err:" ++ errName e)]
  | .crash _ => [.s "crash"]

def fsEventToks (r : FRes Mem) : List Tok :=
  fresToks r ++ [.s " ["] ++ sepBy (.s ",") (r.sys.log.map dopToks) ++ [.s "] {"] ++ storeToks (view r.sys.dir)
    ++ [.s (";tmp=" ++ tmpKinds r.sys.dir ++ "}")]

def fsToks (ord : Order) : List FEvent → FDisk → List (List Tok)
  | [], _ => []
  | e :: es, d => fsEventToks (e.run ord d) :: fsToks ord es (e.after ord d)

/-! ### autosave -/

structure ASpec where
  ev : AEvent
  name : String

def fileName : File → String
  | .path => "p" | .tmp => "t"

def contentName : Option Bytes → String
  | none => "-"
  | some [] => "e"
  | some c => bytesToString c

def fopName : FOp → String
  | .creat f => "c:" ++ fileName f
  | .creatExcl f => "x:" ++ fileName f
  | .write f d => "w:" ++ fileName f ++ ":" ++ contentName (some d)
  | .rename a b => "mv:" ++ fileName a ++ ">" ++ fileName b

def fsName (fs : FS) : String := "{p=" ++ contentName fs.path ++ ",t=" ++ contentName fs.tmp ++ "}"

def lresName : LRes → String
  | .ok => "ok" | .same => "same" | .rejected => "rej" | .killed => "killed"

def isPersistFlag (c : Char) : Bool := c == 'd' || c == 'p' || c == 'n'
def isOtherFlag (c : Char) : Bool :=
  c == 'f' || c == 'x' || c == 'y' || c == 'j' || c == 'i' || c == 'z' || c == 'u' || c == 'v'

def allDistinct : List Char → Bool
  | [] => true
  | c :: cs => !cs.contains c && allDistinct cs

def parseFFault (s : String) : Option (Option FFault) :=
  if s == "-" then some none else
  match s.toList with
  | 'K' :: rest => match (String.ofList rest).toNat? with
    | some k => if k = 0 then none else some (some ⟨k, .killBefore⟩)
    | none => none
  | 'F' :: rest => match (String.ofList rest).toNat? with
    | some k => if k = 0 then none else some (some ⟨k, .failBefore⟩)
    | none => none
  | _ => none

/-- the bytes that stand for a config: its number and every flag that is part of its JSON text -/
def cfgBytes (n : String) (flags : List Char) : Bytes :=
  if flags.contains 'z' then str "null" else str (n ++ String.ofList (flags.filter (· != 'f')))

def parseAEvent (s : String) : Option AEvent :=
  if s == "R" then some .restart else
  match s.splitOn ":" with
  | [ln, flags, fault] =>
    match ln.toList, flags.toList, parseFFault fault with
    | 'L' :: num, p :: rest, some ft =>
      if num.isEmpty || !num.all Char.isDigit || !isPersistFlag p || !rest.all isOtherFlag || !allDistinct rest
          || (rest.contains 'z' && (rest.contains 'x' || rest.contains 'y' || rest.contains 'j' || rest.contains 'i'
                || rest.contains 'u' || rest.contains 'v'))
          || (rest.contains 'i' && rest.contains 'u') || (rest.contains 'i' && rest.contains 'v')
          || (rest.contains 'u' && rest.contains 'v') then none else
      some (.load
        { cfg := cfgBytes (String.ofList num) (p :: rest)
          force := rest.contains 'f'
          accepted := !(rest.contains 'x' || rest.contains 'y' || rest.contains 'j')
          nonNil := !rest.contains 'z'
          persistCfg := p != 'n'
          allowPersist := true } ft)
    | _, _, _ => none
  | _ => none

def aEventOut (sty : Style) : AEvent → AState → String
  | .load l ft, a =>
    lresName (loadStep sty l ft a).res ++ "[" ++ ",".intercalate ((loadStep sty l ft a).log.map fopName) ++ "]"
      ++ fsName (loadStep sty l ft a).st.fs
  | .restart, a => "R[]" ++ fsName a.fs

/-- a step of an `as` line: an event of the model, or a restart with `--resume` -/
inductive ASStep
  | ev (e : AEvent)
  | resume

/-- the load `--resume` performs on file content `c` (inverse of `cfgBytes`); `none` when the
    content is not a config of this protocol -/
def loadOfContent (c : Bytes) : Option Load :=
  if c == str "null" then
    some { cfg := c, force := true, accepted := true, nonNil := false, persistCfg := true, allowPersist := true }
  else
    match (bytesToString c).toList.span Char.isDigit with
    | (num, p :: rest) =>
      if num.isEmpty || !isPersistFlag p || !rest.all isOtherFlag || !allDistinct rest || rest.contains 'f'
          || rest.contains 'z' then none else
      some { cfg := c, force := true
             accepted := !(rest.contains 'x' || rest.contains 'y' || rest.contains 'j')
             nonNil := true, persistCfg := p != 'n', allowPersist := true }
    | _ => none

def asOut (sty : Style) : List ASStep → AState → List String
  | [], _ => []
  | .ev e :: es, a => aEventOut sty e a :: asOut sty es (e.step sty a)
  | .resume :: es, a =>
    match resumeConfig a with
    | none => ("U:-[]" ++ fsName a.fs) :: asOut sty es (AEvent.restart.step sty a)
    | some c =>
      match loadOfContent c with
      | some l =>
        ("U:" ++ contentName (some c) ++ "=" ++ aEventOut sty (.load l none) (AEvent.restart.step sty a))
          :: asOut sty es ((AEvent.load l none).step sty (AEvent.restart.step sty a))
      | none => ("U:" ++ contentName (some c) ++ "=rej[]" ++ fsName a.fs) :: asOut sty es (AEvent.restart.step sty a)

def parseASStep (s : String) : Option ASStep :=
  if s == "U" then some .resume else (parseAEvent s).map .ev

/-- at most one fault per process life (between two `R`/`U`): the harness injects a single fault
    into a traced process -/
def oneFaultPerLife : List ASStep → Nat → Bool
  | [], _ => true
  | .resume :: es, _ => oneFaultPerLife es 0
  | .ev .restart :: es, _ => oneFaultPerLife es 0
  | .ev (.load _ none) :: es, n => oneFaultPerLife es n
  | .ev (.load _ (some _)) :: es, n => n == 0 && oneFaultPerLife es 1

def handleAS (hist : String) : String :=
  match (hist.splitOn ";").mapM parseASStep with
  | some evs =>
    if oneFaultPerLife evs 0 then " ".intercalate (asOut codeStyle evs ⟨none, ⟨none, none⟩⟩) else "bad-op"
  | none => "bad-op"

def parseFSEvent (now : Nat) (s : String) : Option FEvent :=
  match s.splitOn ":" with
  | [life, fault] =>
    match (if life == "s" then some 0 else if life == "l" then some longLife else none), parseFFault fault with
    | some lf, some ft => some ⟨⟨now, lf⟩, ft⟩
    | _, _ => none
  | _ => none

def parseFSEvents : List String → Nat → Option (List FEvent)
  | [], _ => some []
  | s :: ss, now => do
    let e ← parseFSEvent now s
    let es ← parseFSEvents ss (now + 1)
    pure (e :: es)

def handleFS (hist : String) : String :=
  match parseFSEvents (hist.splitOn ";") 1 with
  | some evs => render (sepBy (.s " ; ") (fsToks codeOrder evs FDisk.empty)) [] ""
  | none => "bad-op"

/-! ### resume through the command line -/

def parseEnvVal : String → Option EnvVal
  | "-" => some .unset | "e" => some .empty
  | "0" => some (.dir 0) | "1" => some (.dir 1) | "2" => some (.dir 2) | "3" => some (.dir 3)
  | _ => none

def parsePEnv (s : String) : Option (PEnv × Option EnvVal) :=
  match s.toList with
  | ['x', a, 'h', b] => do pure (⟨← parseEnvVal (String.singleton a), ← parseEnvVal (String.singleton b)⟩, none)
  | ['x', a, 'h', b, 'd', c] => do
    pure (⟨← parseEnvVal (String.singleton a), ← parseEnvVal (String.singleton b)⟩, some (← parseEnvVal (String.singleton c)))
  | _ => none

def parseAssign (s : String) : Option (EnvVar × EnvVal) :=
  match s.splitOn "=" with
  | [k, v] => do
    let var ← (match k with | "x" => some EnvVar.xdg | "h" => some .home | "o" => some .other | "d" => some .data | _ => none)
    let val ← parseEnvVal v
    if val = .unset then none else pure (var, val)
  | _ => none

def distinctVars : List (EnvVar × EnvVal) → Bool
  | [] => true
  | a :: as => !(as.any (·.1 == a.1)) && distinctVars as

def parseEnvFileSpec (s : String) : Option EnvFile :=
  if s == "_" then some [] else do
    let as ← (s.splitOn ",").mapM parseAssign
    if distinctVars as then pure as else none

def parseEnvFiles (s : String) : Option (List EnvFile) :=
  if s == "." then some [] else (s.splitOn "/").mapM parseEnvFileSpec

/-- a config token taken apart: <n><p|d|n>[x|k][i|u] -/
structure RSTok where
  num : List Char
  persist : Char
  fail : Bool
  pki : Bool
  id : Option Char
deriving DecidableEq

def RSTok.chars (t : RSTok) : List Char :=
  t.num ++ [t.persist] ++ (if t.fail then ['x'] else []) ++ (if t.pki then ['k'] else []) ++
    (match t.id with | some c => [c] | none => [])

def parseRSTok (cs : List Char) : Option RSTok :=
  match cs.span Char.isDigit with
  | (num, p :: rest) =>
    if num.isEmpty || !isPersistFlag p then none else
    match rest with
    | [] => some ⟨num, p, false, false, none⟩
    | ['x'] => some ⟨num, p, true, false, none⟩
    | ['k'] => some ⟨num, p, false, true, none⟩
    | ['i'] => some ⟨num, p, false, false, some 'i'⟩
    | ['u'] => some ⟨num, p, false, false, some 'u'⟩
    | ['x', 'i'] => some ⟨num, p, true, false, some 'i'⟩
    | ['x', 'u'] => some ⟨num, p, true, false, some 'u'⟩
    | ['k', 'i'] => some ⟨num, p, false, true, some 'i'⟩
    | ['k', 'u'] => some ⟨num, p, false, true, some 'u'⟩
    | _ => none
  | _ => none

def RSTok.load (force : Bool) (t : RSTok) : Load :=
  { cfg := str (String.ofList t.chars), force := force, accepted := !t.fail, nonNil := true,
    persistCfg := t.persist != 'n', allowPersist := true }

/-- cfg = <n><p|d|n>[x|k][i|u] -/
def parseRSCfg (force : Bool) (s : String) : Option Load := (parseRSTok s.toList).map (RSTok.load force)

inductive RSEvent
  | start (resume : Bool) (cfg : Load)
  | push (kind : String) (r : LoadReq)   -- POST /load: P no Cache-Control | F `must-revalidate` | G `no-cache, must-revalidate`
  | patch (byId : Bool) (t : RSTok)   -- PATCH /config/apps/c14probe | PATCH /id/a with the app object of `t`
  | kill

/-- (S only) a Caddyfile: c<n><d|n> — adapted by the real adapter; `n` = `persist_config off` -/
def parseRSCaddyfile (force : Bool) (s : String) : Option Load :=
  match s.toList with
  | 'c' :: rest =>
    match rest.span Char.isDigit with
    | (num, [p]) =>
      if num.isEmpty then none
      else if p == 'd' then some (caddyfileLoad (str (String.ofList ('c' :: rest))) .absent force true)
      else if p == 'n' then some (caddyfileLoad (str (String.ofList ('c' :: rest))) .off force true)
      else none
    | _ => none
  | _ => none

/-- the text of a pushed Caddyfile is NOT the document it adapts to: the request body of a pushed
    c-config is `caddyfile:<token>`, the adapted document is `<token>` -/
def caddyfileMark : Bytes := str "caddyfile:"

/-- the request of a P / F / G event: a JSON token goes out as `application/json`, a Caddyfile
    c<n><d|n|b> (b = a Caddyfile the adapter refuses) as `text/caddyfile` -/
def parseRSPush (cache : CacheControl) (c : String) : Option LoadReq :=
  match parseRSTok c.toList with
  | some _ => some ⟨true, .json, cache, str c⟩
  | none =>
    match c.toList with
    | 'c' :: rest =>
      match rest.span Char.isDigit with
      | (num, [p]) =>
        if num.isEmpty || !(p == 'd' || p == 'n' || p == 'b') then none
        else some ⟨true, .adapter true, cache, caddyfileMark ++ str c⟩
      | _ => none
    | _ => none

/-- the Caddyfile adapter on a pushed body: the document named by the token, or an error -/
def rsAdapt (b : Bytes) : Option Bytes :=
  if caddyfileMark.isPrefixOf b then
    match parseRSCaddyfile false (bytesToString (b.drop caddyfileMark.length)) with
    | some _ => some (b.drop caddyfileMark.length)
    | none => none
  else none

def parseRSEvent (s : String) : Option RSEvent :=
  match s.splitOn ":" with
  | ["K"] => some .kill
  | ["P", c] => (parseRSPush .absent c).map (.push "P")
  | ["F", c] => (parseRSPush .mustRevalidate c).map (.push "F")
  | ["G", c] => (parseRSPush .other c).map (.push "G")
  | ["M", c] => (parseRSPush .absent c).map fun r => .push "M" { r with post := false }
  | ["X", c] => (parseRSPush .absent c).map fun r => .push "X" { r with ctype := .adapter false }
  | ["Y", c] => (parseRSPush .mustRevalidate c).map fun r => .push "Y" { r with ctype := .malformed }
  | ["Q", c] => match parseRSTok c.toList with
    | some t => if t.pki then none else some (.patch false t)
    | none => none
  | ["I", c] => match parseRSTok c.toList with
    | some t => if t.pki then none else some (.patch true t)
    | none => none
  | ["S", r, c] =>
    if r != "r" && r != "-" then none else
    match parseRSCfg true c with
    | some l => if l.accepted then some (.start (r == "r") l) else none
    | none => (parseRSCaddyfile true c).map (.start (r == "r"))
  | _ => none

/-- does the config (its bytes are its token) carry the pki app? -/
def hasPKI (cfg : Bytes) : Bool :=
  match parseRSTok (bytesToString cfg).toList with
  | some t => t.pki
  | none => false

structure RSWorld where
  disk : CDisk
  roots : DataDir → Option Nat
  nroots : Nat
  run : Option AState

def rootName : Option Nat → String
  | none => "-"
  | some r => toString r

def rsState (pki : Bool) (w : RSWorld) (e : PEnv) (data : Option EnvVal) (files : List EnvFile) : String :=
  "{a=" ++ contentName (w.disk (writerDir e files)).path ++ ",b=" ++ contentName (w.disk (appConfigDir e)).path
    ++ (if pki then ",ra=" ++ rootName (w.roots (storageDir data e files)) ++ ",rb=" ++ rootName (w.roots (appDataDir data e)) else "")
    ++ "}"

/-- resumed bytes are loaded with forceReload; bytes that are not a config of this protocol are
    not loadable -/
def rsAsLoad (b : Bytes) : Load :=
  match parseRSTok (bytesToString b).toList with
  | some t => t.load true
  | none =>
    match parseRSCaddyfile true (bytesToString b) with
    | some l => l
    | none =>
    match loadOfContent b with
    | some l => l
    | none => { cfg := b, force := true, accepted := false, nonNil := true, persistCfg := true, allowPersist := true }

/-- what `caddy.Load(b, force)` means for a document of this protocol -/
def rsMk (b : Bytes) (force : Bool) : Load :=
  match parseRSTok (bytesToString b).toList with
  | some t => t.load force
  | none =>
    match parseRSCaddyfile force (bytesToString b) with
    | some l => l
    | none => { cfg := b, force := force, accepted := false, nonNil := true, persistCfg := true, allowPersist := true }

/-- the document a sub-path write produces: the app object of `t` inside the running document
    (persistence flag and pki app stay); `none`: the request is refused (no running document of this
    protocol, or `/id/a` does not address the app) -/
def patchedTok (byId : Bool) (t : RSTok) (cur : Option Bytes) : Option RSTok :=
  match cur.bind fun c => parseRSTok (bytesToString c).toList with
  | some r => if byId && r.id != some 'i' then none else some { t with persist := r.persist, pki := r.pki }
  | none => none

/-- a config with the pki app came up: its root is the stored one of the data directory, else new -/
def withRoot (w : RSWorld) (cfg : Bytes) (dir : DataDir) : RSWorld × String :=
  if hasPKI cfg then
    ({ w with roots := (useRoot w.roots dir w.nroots).2
              nroots := if (w.roots dir).isSome then w.nroots else w.nroots + 1 },
     "/r" ++ toString (useRoot w.roots dir w.nroots).1)
  else (w, "")

/-- the world right after the load `l` of the running process `a` returned (roots not yet looked at) -/
def rsLoaded (e : PEnv) (files : List EnvFile) (l : Load) (a : AState) (w : RSWorld) : RSWorld :=
  ⟨w.disk.set (writerDir e files) (loadStep codeStyle l none a).st.fs, w.roots, w.nroots,
   some (loadStep codeStyle l none a).st⟩

/-- one pushed load on the running process `a`: the answer without its kind letter, and the world after -/
def rsPushStep (pki : Bool) (e : PEnv) (data : Option EnvVal) (files : List EnvFile) (l : Load) (a : AState)
    (w : RSWorld) : String × RSWorld :=
  if (loadStep codeStyle l none a).res == .rejected then ("=rej" ++ rsState pki w e data files, w)
  else
    ("=ok" ++ (if (loadStep codeStyle l none a).log.isEmpty then "" else "!") ++ (withRoot (rsLoaded e files l a w)
                  (if (loadStep codeStyle l none a).res == .same then [] else l.cfg) (storageDir data e files)).2
      ++ (if (loadStep codeStyle l none a).res == .same && hasPKI l.cfg then
            "/r" ++ rootName (w.roots (storageDir data e files)) else "")
      ++ rsState pki (withRoot (rsLoaded e files l a w)
                  (if (loadStep codeStyle l none a).res == .same then [] else l.cfg) (storageDir data e files)).1 e data files,
     (withRoot (rsLoaded e files l a w)
        (if (loadStep codeStyle l none a).res == .same then [] else l.cfg) (storageDir data e files)).1)

def rsOut (pki : Bool) (e : PEnv) (data : Option EnvVal) (files : List EnvFile) : List RSEvent → RSWorld → List String
  | [], _ => []
  | .kill :: evs, w => ("K" ++ rsState pki w e data files) :: rsOut pki e data files evs { w with run := none }
  | .push k r :: evs, w =>
    match w.run with
    | none => (k ++ "=norun" ++ rsState pki w e data files) :: rsOut pki e data files evs w
    | some a =>
      match handleLoad rsAdapt rsMk r with
      | .load l => (k ++ (rsPushStep pki e data files l a w).1) :: rsOut pki e data files evs (rsPushStep pki e data files l a w).2
      | _ => (k ++ "=rej" ++ rsState pki w e data files) :: rsOut pki e data files evs w
  | .patch byId t :: evs, w =>
    match w.run with
    | none => ((if byId then "I" else "Q") ++ "=norun" ++ rsState pki w e data files) :: rsOut pki e data files evs w
    | some a =>
      match patchedTok byId t a.cur with
      | none => ((if byId then "I" else "Q") ++ "=rej" ++ rsState pki w e data files) :: rsOut pki e data files evs w
      | some t' =>
        ((if byId then "I" else "Q") ++ (rsPushStep pki e data files (t'.load false) a w).1) ::
          rsOut pki e data files evs (rsPushStep pki e data files (t'.load false) a w).2
  | .start r cfg :: evs, w =>
    if (firstLoad codeReadAt rsAsLoad ⟨e, files, r, cfg⟩ w.disk).accepted then
      ("S=" ++ bytesToString (firstLoad codeReadAt rsAsLoad ⟨e, files, r, cfg⟩ w.disk).cfg
          ++ (withRoot { w with disk := processRun codeReadAt rsAsLoad ⟨e, files, r, cfg⟩ [] w.disk }
                (firstLoad codeReadAt rsAsLoad ⟨e, files, r, cfg⟩ w.disk).cfg (storageDir data e files)).2
          ++ rsState pki (withRoot { w with disk := processRun codeReadAt rsAsLoad ⟨e, files, r, cfg⟩ [] w.disk }
                (firstLoad codeReadAt rsAsLoad ⟨e, files, r, cfg⟩ w.disk).cfg (storageDir data e files)).1 e data files) ::
        rsOut pki e data files evs
          { (withRoot { w with disk := processRun codeReadAt rsAsLoad ⟨e, files, r, cfg⟩ [] w.disk }
                (firstLoad codeReadAt rsAsLoad ⟨e, files, r, cfg⟩ w.disk).cfg (storageDir data e files)).1 with
            run := some (loadStep codeStyle (firstLoad codeReadAt rsAsLoad ⟨e, files, r, cfg⟩ w.disk) none
                          ⟨none, w.disk (writerDir e files)⟩).st }
    else ("S=fail" ++ rsState pki w e data files) :: rsOut pki e data files evs { w with run := none }

def rsUsesPKI : List RSEvent → Bool
  | [] => false
  | .start _ l :: es => hasPKI l.cfg || rsUsesPKI es
  | .push _ r :: es => hasPKI r.body || rsUsesPKI es
  | .patch _ _ :: es => rsUsesPKI es
  | .kill :: es => rsUsesPKI es

def handleRS (env files evs : String) : String :=
  match parsePEnv env, parseEnvFiles files, (evs.splitOn ";").mapM parseRSEvent with
  | some (e, data), some fs, some es =>
    " ".intercalate (rsOut (rsUsesPKI es) e data fs es ⟨CDisk.empty, fun _ => none, 0, none⟩)
  | _, _, _ => "bad-op"

def handle : List String → String
  | ["ca", hist] => handleCA hist
  | ["fs", hist] => handleFS hist
  | ["cs", hist] => handleCS hist
  | ["rs", env, files, evs] => handleRS env files evs
  | ["as", hist] => handleAS hist
  | _ => "bad-op"

/-- counter-example lines replayed on the implementation first on every run: none.  F10, F11 and
    the unchecked intermediate pair are repaired in the tree; `Witness.lean` proves that the old
    revisions violate the property, and corpus/C14/*.txt keeps their failing histories as
    regression cases (replayed first on every run, through model and implementation). -/
def witnessLines : List String := []

end CaddyModel.C14
