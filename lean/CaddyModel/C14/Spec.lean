/-
C14 — the small account the property talks about.

CA:       what "a mutually consistent certificate chain and keys" means for the values a
          start-up holds in memory (`Mem.Consistent`) and for the storage (`Complete`);
          the shape of every storage state an interrupted history can leave (`InvAt`).
Autosave: "a complete copy of some successfully loaded configuration" (`Good`).
-/
import CaddyModel.C14.Model

namespace CaddyModel.C14

/-- root self-signed, root key belongs to the root certificate, intermediate signed by the
    root, intermediate key belongs to the intermediate certificate -/
def Mem.Consistent (m : Mem) : Prop :=
  m.root.signer = m.root.pub ∧ m.root.keyId = m.root.pub ∧
  m.inter.signer = m.root.pub ∧ m.inter.keyId = m.inter.pub

instance (m : Mem) : Decidable m.Consistent := by unfold Mem.Consistent; infer_instance

/-- the storage holds exactly the chain and the keys in use -/
def Complete (s : Store) (m : Mem) : Prop :=
  s .rootCrt = some m.root.crt ∧ s .rootKey = some m.root.key ∧
  s .intCrt = some m.inter.crt ∧ s .intKey = some m.inter.key

instance (s : Store) (m : Mem) : Decidable (Complete s m) := by unfold Complete; infer_instance

/-- Every storage state reachable by interrupted start-ups and maintenance passes:
    * whatever is stored under a `.key` name is a key;
    * a stored root certificate is self-signed and its key is stored with it;
    * a stored intermediate certificate is signed by the stored root and SOME intermediate key
      is stored with it — not necessarily its own: an interrupted or half-failed renewal leaves
      a foreign key, which `loadOrGenIntermediate` detects and replaces.
    (The clock argument is kept for the statements about renewal windows; the invariant itself
    does not depend on it: `InvAt.any`.) -/
structure InvAt (t : Nat) (s : Store) : Prop where
  rootKeyKind : ∀ b, s .rootKey = some b → ∃ r, b = .key r
  intKeyKind : ∀ b, s .intKey = some b → ∃ j, b = .key j
  root : ∀ b, s .rootCrt = some b → ∃ r ra, b = .cert r r ra ∧ s .rootKey = some (.key r)
  inter : ∀ b, s .intCrt = some b → ∃ i r ra rra j, b = .cert i r ra ∧
            s .rootCrt = some (.cert r r rra) ∧ s .intKey = some (.key j)

instance decMonotone : (t : Nat) → (evs : List Event) → Decidable (Monotone t evs)
  | _, [] => isTrue trivial
  | t, e :: es =>
    match Nat.decLe t e.cfg.now, decMonotone e.cfg.now es with
    | isTrue h1, isTrue h2 => isTrue ⟨h1, h2⟩
    | isFalse h1, _ => isFalse (fun h => h1 h.1)
    | _, isFalse h2 => isFalse (fun h => h2 h.2)

instance decStepsMonotone : (t : Nat) → (sts : List Step) → Decidable (StepsMonotone t sts)
  | _, [] => isTrue trivial
  | t, st :: sts =>
    match Nat.decLe t st.now, decStepsMonotone st.now sts with
    | isTrue h1, isTrue h2 => isTrue ⟨h1, h2⟩
    | isFalse h1, _ => isFalse (fun h => h1 h.1)
    | _, isFalse h2 => isFalse (fun h => h2 h.2)

instance (w : World) : Decidable w.synced := by
  unfold World.synced
  cases w.proc with
  | none => exact isTrue trivial
  | some ml => exact inferInstanceAs (Decidable (_ = _))

instance decSyncedAtTicks (ord : Order) : (sts : List Step) → (w : World) → Decidable (SyncedAtTicks ord sts w)
  | [], _ => isTrue trivial
  | .start e :: sts, w => decSyncedAtTicks ord sts (w.step ord (.start e))
  | .tick n f :: sts, w =>
    match (inferInstance : Decidable w.synced), decSyncedAtTicks ord sts (w.step ord (.tick n f)) with
    | isTrue h1, isTrue h2 => isTrue ⟨h1, h2⟩
    | isFalse h1, _ => isFalse (fun h => h1 h.1)
    | _, isFalse h2 => isFalse (fun h => h2 h.2)

/-! ### autosave -/

/-- the autosave file does not exist yet, or is byte for byte one of the configs in `A` -/
def Good (A : List Bytes) (fs : FS) : Prop := fs.path = none ∨ ∃ c ∈ A, fs.path = some c

instance (A : List Bytes) (fs : FS) : Decidable (Good A fs) := by unfold Good; infer_instance

end CaddyModel.C14
