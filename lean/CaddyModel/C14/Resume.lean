/-
C14 — the resume side of autosave: `caddy run --resume [--envfile f]… --config c`
(cmd/commandfuncs.go cmdRun, cmd/main.go loadEnvFromFile, storage.go AppConfigDir).

The autosave file lives at `caddy.ConfigAutosavePath`, a PACKAGE VARIABLE:
  * initialised from the process environment (storage.go: `AppConfigDir()/autosave.json`);
  * re-computed by `loadEnvFromFile` after every `--envfile` file, because such a file may define
    XDG_CONFIG_HOME or HOME (only variables the process does not have yet are taken from it);
  * read by the WRITER (caddy.go) at every load, and by the READER (`cmdRun --resume`) once, at
    start-up.
The statements of `cmdRun` are modelled in source order as steps over that variable; WHEN the
reader evaluates it is the parameter `ReadAt` (`codeReadAt` = after `handleEnvFileFlag`, as in
the tree).  A disk is a map from configuration directories to the two autosave files of
Model.lean, so everything proved there about one directory composes.
-/
import CaddyModel.C14.Model

namespace CaddyModel.C14

/-- the value of an environment variable as `os.LookupEnv` / `os.Getenv` see it -/
inductive EnvVal
  | unset
  | empty            -- set to the empty string
  | dir (n : Nat)    -- an absolute directory (distinct numbers = unrelated directories)
deriving DecidableEq, Repr

structure PEnv where
  xdg : EnvVal     -- XDG_CONFIG_HOME
  home : EnvVal    -- HOME
deriving DecidableEq, Repr

inductive EnvVar
  | xdg | home | other | data   -- data = XDG_DATA_HOME
deriving DecidableEq, Repr

/-- an env file: KEY=VALUE lines (one per variable) -/
abbrev EnvFile := List (EnvVar × EnvVal)

/-- `loadEnvFromFile`: "do not overwrite existing environment variables" (`LookupEnv`: a variable
    set to the empty string exists) -/
def applyAssign (e : PEnv) : EnvVar × EnvVal → PEnv
  | (.xdg, v) => if e.xdg = .unset then { e with xdg := v } else e
  | (.home, v) => if e.home = .unset then { e with home := v } else e
  | (.other, _) => e
  | (.data, _) => e

def applyEnvFile (e : PEnv) (f : EnvFile) : PEnv := f.foldl applyAssign e

/-- where a configuration directory is -/
inductive ConfDir
  | xdg (n : Nat)     -- $XDG_CONFIG_HOME/caddy
  | home (n : Nat)    -- $HOME/.config/caddy
  | cwd               -- ./caddy ("unable to determine directory for user configuration")
deriving DecidableEq, Repr

/-- `AppConfigDir()` (storage.go) on Linux: XDG_CONFIG_HOME if non-empty, else
    `os.UserConfigDir()` = $HOME/.config if HOME is non-empty, else the fallback -/
def appConfigDir (e : PEnv) : ConfDir :=
  match e.xdg with
  | .dir n => .xdg n
  | _ =>
    match e.home with
    | .dir n => .home n
    | _ => .cwd

/-- when `cmdRun` evaluates the variable for `--resume` -/
inductive ReadAt
  | afterEnvFiles    -- the tree: `os.ReadFile(caddy.ConfigAutosavePath)` below `handleEnvFileFlag(fl)`
  | beforeEnvFiles   -- a copy of the variable taken with the flag values, above it
deriving DecidableEq, Repr

def codeReadAt : ReadAt := .afterEnvFiles

/-- the process: its environment and the package variable -/
structure CmdState where
  env : PEnv
  autosaveDir : ConfDir     -- caddy.ConfigAutosavePath (its directory)

/-- package initialisation -/
def CmdState.init (e : PEnv) : CmdState := ⟨e, appConfigDir e⟩

/-- `loadEnvFromFile(f)`: set the new variables, then re-compute the package variable -/
def CmdState.loadEnvFile (s : CmdState) (f : EnvFile) : CmdState :=
  ⟨applyEnvFile s.env f, appConfigDir (applyEnvFile s.env f)⟩

/-- `handleEnvFileFlag` -/
def CmdState.handleEnvFiles (s : CmdState) (files : List EnvFile) : CmdState := files.foldl CmdState.loadEnvFile s

/-- the directory every load of this process autosaves into (the variable when `caddy.Load` runs) -/
def writerDir (e : PEnv) (files : List EnvFile) : ConfDir := ((CmdState.init e).handleEnvFiles files).autosaveDir

/-- the directory `--resume` reads from -/
def readerDir (r : ReadAt) (e : PEnv) (files : List EnvFile) : ConfDir :=
  match r with
  | .afterEnvFiles => ((CmdState.init e).handleEnvFiles files).autosaveDir
  | .beforeEnvFiles => (CmdState.init e).autosaveDir

/-! ### processes on a disk with several configuration directories -/

abbrev CDisk := ConfDir → FS

def CDisk.empty : CDisk := fun _ => ⟨none, none⟩

def CDisk.set (d : CDisk) (p : ConfDir) (fs : FS) : CDisk := fun p' => if p' = p then fs else d p'

/-- the command line of one `caddy run` -/
structure CmdLine where
  env : PEnv
  files : List EnvFile
  resume : Bool
  config : Load          -- what `--config` holds (loaded with forceReload)

/-- the config `cmdRun` loads first: the autosave file where the reader looks, if `--resume` is
    given and the file exists ("no autosave file exists" → `--config` after all); `asLoad` is what
    loading those bytes means -/
def firstLoad (r : ReadAt) (asLoad : Bytes → Load) (c : CmdLine) (d : CDisk) : Load :=
  if c.resume then
    match (d (readerDir r c.env c.files)).path with
    | some b => asLoad b
    | none => c.config
  else c.config

/-- one process life: start-up load, then the loads pushed through the admin API (`evs`, with the
    faults of Model.lean), all autosaving into the writer's directory; then the process is gone -/
def processRun (r : ReadAt) (asLoad : Bytes → Load) (c : CmdLine) (evs : List AEvent) (d : CDisk) : CDisk :=
  d.set (writerDir c.env c.files)
    (runLoads codeStyle (.load (firstLoad r asLoad c d) none :: evs) ⟨none, d (writerDir c.env c.files)⟩).fs

/-! ### where the persistence flag of a config comes from -/

/-- the Caddyfile global option `persist_config` (httpcaddyfile/options.go parseOptPersistConfig:
    the only accepted argument is `off`) -/
inductive PersistOpt
  | absent
  | off
deriving DecidableEq, Repr

/-- `admin.config.persist` of the adapted JSON (httpcaddyfile/httptype.go: `off` ↦ a pointer to
    `false`, otherwise the field is left out) -/
def adaptPersist : PersistOpt → Option Bool
  | .absent => none
  | .off => some false

/-- the test of `unsyncedDecodeAndRun` on the decoded field: absent or true -/
def persistOfJSON : Option Bool → Bool
  | none => true
  | some b => b

/-- a load of a config that came from a Caddyfile -/
def caddyfileLoad (cfg : Bytes) (opt : PersistOpt) (force accepted : Bool) : Load :=
  { cfg := cfg, force := force, accepted := accepted, nonNil := true,
    persistCfg := persistOfJSON (adaptPersist opt), allowPersist := true }

/-! ### where the CA's files are: `caddy.DefaultStorage`

`caddy.DefaultStorage = &certmagic.FileStorage{Path: AppDataDir()}` is a package variable like
`ConfigAutosavePath`: initialised from the process environment, re-computed by `loadEnvFromFile`,
and read by `provisionContext` at every load (`newCfg.storage = DefaultStorage` when the config
names no storage).  The pki app of C14's first part lives under it. -/

def applyDataAssign (d : EnvVal) : EnvVar × EnvVal → EnvVal
  | (.data, v) => if d = .unset then v else d
  | _ => d

inductive DataDir
  | fixed               -- XDG_DATA_HOME is not part of the case (a fixed private directory)
  | xdgData (n : Nat)   -- $XDG_DATA_HOME/caddy
  | homeShare (n : Nat) -- $HOME/.local/share/caddy
  | cwd                 -- ./caddy
deriving DecidableEq, Repr

/-- `AppDataDir()` on Linux -/
def appDataDir (data : Option EnvVal) (e : PEnv) : DataDir :=
  match data with
  | none => .fixed
  | some (.dir n) => .xdgData n
  | some _ =>
    match e.home with
    | .dir n => .homeShare n
    | _ => .cwd

/-- the data directory every load of a process uses: `AppDataDir()` of the environment after the
    env files -/
def storageDir (data : Option EnvVal) (e : PEnv) (files : List EnvFile) : DataDir :=
  appDataDir (data.map fun d => files.foldl (fun d f => f.foldl applyDataAssign d) d) (files.foldl applyEnvFile e)

/-- the root a process with the pki app ends up with: the stored one, else a new one (`fresh`) -/
def useRoot (roots : DataDir → Option Nat) (dir : DataDir) (fresh : Nat) : Nat × (DataDir → Option Nat) :=
  match roots dir with
  | some r => (r, roots)
  | none => (fresh, fun d => if d = dir then some fresh else roots d)

end CaddyModel.C14
