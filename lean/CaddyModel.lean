-- Root of the `CaddyModel` library: every property's model, spec, lemmas and theorems.
import CaddyModel.Util.Hex
import CaddyModel.C18.Model
