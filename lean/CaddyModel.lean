-- Root of the `CaddyModel` library: every property's model, spec, lemmas and theorems.
import CaddyModel.Util.Hex
import CaddyModel.Util.DrvMain
import CaddyModel.C05.Driver
import CaddyModel.C05.Props
import CaddyModel.C10.Driver
import CaddyModel.C10.Props
import CaddyModel.C17.Driver
import CaddyModel.C17.Props
import CaddyModel.C18.Driver
import CaddyModel.C18.Props
import CaddyModel.C19.Driver
import CaddyModel.C19.Props
import CaddyModel.C19.Witness
